"""Generator of malformed / edge-case nmfu programs for C18 (DESIGN.md section 5, C18).

Everything produced here is meant to be SYNTACTICALLY VALID (lark accepts it) and, mostly, semantically wrong
in one place.  Three streams:

  edge_cases()      deterministic, hand-enumerated misuse matrices, every case carries a feature tag
                    (undefined names of every kind, wrong macro argument kinds and counts, odd widths, every
                    escape, raw/enum/bool/str misuse, bodies that are empty once macros are expanded or that hold
                    only actions, duplicate declarations, break/yield/end misuse, huge repeats, numeric extremes,
                    wrong defaults, priorities, $last, conditional actions mixing finish/break/append, foreach, wait)
  GrammarWalk       random derivations of the lark grammar object of the CURRENT nmfu.py (every rule and every
                    alternative is reachable; the rules used are recorded for the coverage figure); identifiers come
                    from pools of declared names of the right kind, with a small probability of the wrong kind or an
                    undefined name
  mutate()          one textual semantic mutation of a valid program (rename an identifier, swap = and +=, swap a
                    literal for one of another type, drop a declaration, blow up a number)

plus random_flags(): random option sets (-O level, -f / -fno- / --flag forms of every ProgramFlag, the integer
ProgramOptions with edge values), and minimise(): delta debugging over declarations and statements.
"""
import re, random, itertools

# ---------------------------------------------------------------------------
# option sets
# ---------------------------------------------------------------------------

def flag_names():
    import nmfu
    return [f.name for f in nmfu.ProgramFlag]


def random_flags(rng, need=()):
    """a random option set; `need` are flags the program wants (kept with probability 0.85)"""
    import nmfu
    fl = []
    lvl = rng.choice(["-O0", "-O1", "-O2", "-O3", None])
    if lvl:
        fl.append(lvl)
    names = flag_names()
    k = rng.choice([0, 0, 1, 1, 2, 3, 5, 8])
    for name in rng.sample(names, min(k, len(names))):
        dashed = name.lower().replace("_", "-")
        form = rng.random()
        if form < 0.45:
            fl.append("-f" + dashed)
        elif form < 0.70:
            fl.append("-fno-" + dashed)
        elif form < 0.85:
            fl += ["--flag", dashed + "=" + rng.choice(["yes", "no", "on", "off"])]
        else:
            fl += ["--flag", rng.choice([dashed, name])]
    if rng.random() < 0.25:
        for opt in nmfu.ProgramOption:
            if rng.random() < 0.4:
                dashed = "--" + opt.name.lower().replace("_", "-")
                if isinstance(opt.default, int):
                    fl += [dashed, str(rng.choice([0, 1, 2, 3, 4, 5, 20, 255, 256, 1000, -1, 2 ** 31]))]
                else:
                    fl += [dashed, rng.choice(["dot", "pdf", "svg"])]
    for n in need:
        if rng.random() < 0.85 and n not in fl:
            fl.append(n)
    return fl


def flags_signature(fl):
    """coarse description of an option set for the distribution figure"""
    lvl = [f for f in fl if f.startswith("-O")]
    n = sum(1 for f in fl if f.startswith("-f") or f == "--flag")
    opts = sum(1 for f in fl if f.startswith("--") and f != "--flag")
    return "%s/%df/%do" % (lvl[0] if lvl else "-O(default)", n, opts)


# ---------------------------------------------------------------------------
# stream 1: deterministic edge cases
# ---------------------------------------------------------------------------
PRELUDE = ('out bool b0; out int n0; out int{unsigned, size 2} u0; out enum{EA,EB,EC} e0; out str[8] s0; '
           'out unterminated str[4] t0; out raw{uint8_t} r0; hook h0; finishcode F0, F1; macro m_empty() { } '
           'macro m_lit() { "q"; } ')
YPRELUDE = PRELUDE + "yieldcode Y0, Y1; "

CONTEXTS = {
    "plain":   'parser { "a"; %s "z"; }',
    "first":   'parser { %s "z"; }',
    "last":    'parser { "a"; %s }',
    "only":    'parser { %s }',
    "loop":    'parser { loop { "a"; %s } }',
    "looplbl": 'parser { loop L0 { "a"; %s "b"; } "z"; }',
    "case":    'parser { case { "a" -> { %s } "b" -> { } } "z"; }',
    "caseelse": 'parser { case { "a" -> { "q"; } else -> { %s } } "z"; }',
    "try":     'parser { try { "a"; %s "b"; } catch { "c"; } "z"; }',
    "catch":   'parser { try { "a"; } catch { %s } "z"; }',
    "catchnm": 'parser { try { "a"; } catch (nomatch) { %s "c"; } "z"; }',
    "optional": 'parser { optional { "a"; %s } "z"; }',
    "foreach": 'parser { foreach { "a"; %s "b"; } do { n0 = [n0 + 1]; } "z"; }',
    "do":      'parser { foreach { "abc"; } do { %s } "z"; }',
    "if":      'parser { "a"; if n0 == 1 { %s } "z"; }',
    "ifelse":  'parser { "a"; if n0 == 1 { "q"; } else { %s } "z"; }',
    "macro":   'macro m_ctx() { %s } parser { "a"; m_ctx(); "z"; }',
    "gcase":   'parser { greedy case { prio 1 "ab" -> { %s } /a+/ -> { } } "z"; }',
}
QUICK_CONTEXTS = ["plain", "only", "loop", "try", "macro"]

TARGETS = [("b0", "scalar"), ("n0", "scalar"), ("u0", "scalar"), ("e0", "scalar"), ("s0", "string"), ("t0", "string"),
           ("r0", "raw"), ("h0", "nonout"), ("F0", "nonout"), ("m_empty", "nonout"), ("EA", "nonout"), ("nx", "undefined")]
RHS = ['1', '-1', '+7', '0x7fffffffffffffffff', '0b101', "'c'", "'\\n'", 'true', 'false', '"xy"', '""', '"xy"i', '"0a0b"b', '"0a0"b',
       '"\\q"', '/a+/', 'b/00ff/', 'end', '("a" "b")', '("a" /b/ end)', '[1]', '[n0 + 1]', '[s0.len]', '[$last]', '[e0]', '[EA]', '[b0]',
       '[r0]', '[s0]', 'EA', 'n0', 's0', 'b0', 'e0', 'r0', 'h0', 'F0', 'm_empty', 'nx', '[nx]', '[b0 && true]', '[1 == 1]', '[true]', "['a']"]

EXPRS = ['s0', 's0 + 1', 'r0', 'r0.len', 'r0[0]', 't0.len', 't0[0]', 'n0.len', 'n0[0]', 'b0.len', 'e0[0]', 'e0 == EA', 'EA == e0', 'e0 == 1',
         'e0 + 1', 'e0 == e0', 'EA', 'EA + 1', 'b0 + 1', 'b0 == true', 'true + true', 'true == false', '!n0', '!b0', '-b0', '!s0', '-s0', 's0[s0.len]',
         's0[-1]', 's0[s0[0]]', 's0[true]', 's0[e0]', 's0[nx]', 'nx', 'nx.len', 'nx[0]', '$last', '$foo', '$last + $last', '$n0', '1 << 64', '1 << -1',
         '1 >> 100', '1 / 0', '1 % 0', 'n0 / 0', 'n0 % 0', '2147483647', '2147483648', '4294967296', '9223372036854775807', '9223372036854775808',
         '18446744073709551615', '18446744073709551616', '-9223372036854775809', '0b1', '+5', "'\\q'", "'\\''", "'\"'", "'\\x'", "'\\0'",
         "'\u20ac'", "'\U0001F600'", "'\\\u20ac'", '(1)', '((n0))', '1 | 2 ^ 3 & 4', '1 && 2 || 3', 'h0', 'F0', 'm_empty', 'n0 == n0 == n0'.replace(' == n0 == n0', ' == n0'),
         'n0 < s0.len', 's0 == 1', 's0.len == s0.len', 'u0 - 1', 'u0 << u0', 'n0 * n0 * n0', '1 - - 1'.replace('- - 1', '- (-1)'), '!(!n0)', '-(-(n0))', 'n0 != true', 'b0 < b0',
         '0x0', '-0x10', '0xFFFFFFFFFFFFFFFFFFFFFFFF', '007', '-0', '1 <= 2', '1 >= 2', '1 > 2', 'n0 & b0', 'e0 | 1', 'r0 ^ 1']

SIZES = ['0', '1', '2', '3', '4', '5', '7', '8', '9', '16', '32', '64', '-1', '-2', '-8', '+4', '00', '08', '255', '256', '65536', '2147483648',
         '18446744073709551616']

STR_SIZES = ['0', '1', '2', '-1', '-5', '+3', '0x0', '0x10', '-0x1', '0b0', '0b11', '255', '256', '257', '65535', '65536', '4294967296', '18446744073709551616', '007']

ESC_CHARS = [chr(c) for c in list(range(32, 127)) + [9, 0xa0, 0xff, 0x100, 0x20ac, 0x1F600, 1, 0x7f]]

ACTIONS = {
    "finish": "finish;", "finishF": "finish F0;", "break": "break;", "breakL": "break L0;", "appendh": "s0 += [n0];",
    "appends": 't0 += ["x"];'.replace('["x"]', "['x']"), "set": "n0 = [n0 + 1];", "hook": "h0();", "delete": "delete s0;", "sets": 's0 = "xy";',
}
ACT_LOOP = 'parser { try { loop L0 { %s "ab"; n0 = [n0 + 1]; } "tail"; } catch (outofspace) { "zz"; } }'
ACT_TRY = 'parser { loop L0 { try { "x"; %s "tail"; } catch (outofspace) { "zz"; } ";"; } "end"; }'
ACT_DO = 'parser { loop L0 { foreach { /[a-c]+/; } do { %s } ";"; } "end"; }'

MACRO_KINDS = {
    "macro": "p();", "out": "p = 1;", "match": "p;", "expr": "n0 = [p + 1];", "hook": "p();", "loop": "break p;",
    "finishcode": "finish p;", "yieldcode": "yield p;",
}
MACRO_ARGS = ['m_empty', 'm_lit', 'n0', 's0', 'e0', 'r0', 'b0', 'h0', 'L0', 'Y0', 'F0', 'EA', 'nx', '1', '-1', '"x"', '"x"i', '"00"b', '/a/', 'b/00/', '[n0 + 1]',
              '[nx]', '("a" "b")', 'end', 'true', "'c'", '[$last]', '[s0.len]']


CANONICAL = [
    ("bin-number-without-digits", 'out int n = 0b; parser { "a"; }', []),
    ("append-to-scalar", 'out int n; parser { "a"; n += "xy"; }', []),
    ("assign-to-raw", 'out raw{uint8_t} r; parser { "a"; r = 1; }', []),
    ("undefined-enum-constant", 'out enum{A,B} e; parser { "a"; e = C; }', []),
    ("expr-type-mismatch", 'out bool b; parser { "a"; b = [1 << -1]; }', []),
    ("expr-type-mismatch", 'out bool b; parser { "a"; b = [1 % 2]; }', []),
    ("parser-only-actions", 'hook h; parser { h(); }', []),
    ("empty-macro-call", 'macro m() { } parser { "a"; m(); }', []),
    ("empty-macro-call", 'macro m() { } parser { m(); }', []),
    ("empty-macro-call", 'out int n; macro m() { } parser { "a"; if n == 1 { m(); } else { m(); } }', []),
    ("case-only-else", 'parser { case { else -> { } } }', []),
    ("ambiguity-on-end-codepoints", 'parser { optional { end; "a"; } end; "b"; }', ["-feof-support", "-fcodepoints-in-errors"]),
    ("ambiguity-on-end-codepoints", 'parser { optional { "ab"; } /a+/; "b"; }', ["-fcodepoints-in-errors"]),
    ("if-inside-optional", 'out int n; parser { optional { if n == 1 { "q"; } } "z"; }', []),
    ("int-unsigned-odd-size", 'out int{unsigned, size 3} x; parser { "a"; }', []),
    ("empty-literal-in-case", 'parser { case { "" -> { } "x" -> { } } }', []),
    ("macro-recursion", 'macro m() { m(); } parser { m(); }', []),
    ("macro-arg-capture", 'out int n0; macro m_in(expr e) { n0 = e; } macro m_out(expr e) { m_in([e]); } parser { "a"; m_out([1]); }', []),
    ("macro-arg-capture", 'out int n0; macro m_in(expr e) { n0 = [e]; } macro m_out(expr e) { m_in(e); } parser { "a"; m_out([1]); }', []),
    ("macro-arg-capture", 'out str[4] s0; macro m_in(match w) { s0 += w; } macro m_out(match w) { m_in(w); } parser { "a"; m_out("x"); }', []),
    ("macro-arg-capture", 'out str[4] s0; macro m_in(match w) { s0 += w; } macro m_out(match w) { m_in((w "y")); } parser { "a"; m_out("x"); }', []),
    ("macro-arg-capture", 'macro mk(match p) { p; } parser { mk(p); }', []),
    ("macro-arg-capture", 'out int n0; macro mk(expr p) { n0 = [p + 1]; } parser { "a"; mk(p); }', []),
    ("long-literal", 'parser { "%s"; }' % ("x" * 1100), []),
    ("append-as-start-action", 'out str[2] s0; parser { s0 += [1]; wait "a"; }', []),
    ("append-as-start-action", 'out str[2] s0; parser { s0 += [1]; ""; }', []),
    ("ambiguity-with-action-branch", 'out int n; parser { /a+/; if n == 1 { n = 2; } else { "a"; } }', []),
    ("conditional-action-ends-case-clause", 'out str[16] s0; parser { case { "80 80 62"b -> { if s0.len == 0 { delete s0; } } } loop L4 { ","; } }', []),
    ("line-separator-in-literal", 'parser { case { "\x0b" -> { } "\x0bx" -> { } } }', []),
    ("line-separator-in-literal", 'parser { case { "\r" -> { } "\rx" -> { } } }', []),
    ("bin-number-without-digits", 'out int n; parser { "a"; n = 0b; }', []),
    ("bin-number-without-digits", 'out int n; parser { "a"; n = [0b]; }', []),
    ("bin-number-without-digits", 'out int n; parser { "a"; if 0b { "b"; } }', []),
    ("bin-number-without-digits", 'out int n; parser { "a"; if n == 0b { "b"; } }', []),
    ("bin-number-without-digits", 'out str[4] s; parser { "a"; s += [0b]; }', []),
    ("bin-number-without-digits", 'out str[4] s; out int n; parser { "a"; n = [s[0b]]; }', []),
    ("bin-number-without-digits", 'out str[0b] s; parser { "a"; }', []),
    ("bin-number-without-digits", 'out int n; macro m(expr e) { n = e; } parser { "a"; m(0b); }', []),
    ("assign-to-raw", 'out raw{uint8_t} r; macro mk(out p) { p = 1; } parser { "a"; mk(r); }', []),
    ("collapsed-range-length-below-one", 'parser { wait end; }', ["-O2", "-feof-support", "--collapsed-range-length", "0"]),
    ("collapsed-range-length-below-one", 'out raw{uint64_t} u; parser { u += /.{8}/; }', ["-O2", "--collapsed-range-length", "-1"]),
    ("action-target-removed-as-unreachable", 'out str[8] s0; parser { loop L1 { case { ";" -> { } else -> { } } loop { break; "!##"; } s0 += [$last]; } }', ["-O2"]),
    ("long-regex", 'parser { /%s/; }' % ("x" * 1200), []),
]


def matrix_tag(op, tcls):
    return {("+=", "scalar"): "append-to-scalar", ("=", "raw"): "assign-to-raw"}.get((op, tcls), "%s-%s" % ("assign" if op == "=" else "append", tcls))


def edge_cases(tier="quick", rng=None):
    """-> list of dicts {tag, src, flags}.  Deterministic for a tier (rng only rotates the extra context)."""
    rng = rng or random.Random(18)
    quick = tier == "quick"
    out = []
    def add(tag, src, flags=()):
        out.append({"tag": tag, "src": src, "flags": list(flags), "stream": "edge"})

    def in_ctx(tag, stmt, pre=PRELUDE, flags=(), ctxs=None, always=("plain",)):
        names = list(CONTEXTS) if not quick else list(always) + [rng.choice(QUICK_CONTEXTS[1:])]
        if ctxs:
            names = ctxs
        seen = set()
        for c in names:
            if c in seen:
                continue
            seen.add(c)
            t = tag
            if c == "only" and not re.search(r'"|/|\bend\b|m_lit', stmt) and tag not in ("empty-macro-call", "case-only-else"):
                t = "parser-only-actions"
            add(t, pre + CONTEXTS[c] % stmt, flags)

    # --- canonical probes: one small program per defect class seen so far, FIRST, so that their tags name the keys
    #     (failures with the same traceback signature found later are counted as further witnesses of these keys)
    for tag, src, fl in CANONICAL:
        add(tag, src, fl)
    # --- assignment / append matrix: every target kind x operator x right-hand side kind
    for (t, tcls), op, rhs in itertools.product(TARGETS, ("=", "+="), RHS):
        tag = matrix_tag(op, tcls)
        if t == "e0" and op == "=" and re.fullmatch(r"\w+", rhs) and not rhs[0].isdigit() and rhs not in ("EA", "true", "false", "end"):
            tag = "undefined-enum-constant"
        add(tag, PRELUDE + CONTEXTS["plain"] % ("%s %s %s;" % (t, op, rhs)))
    if not quick:
        for (t, tcls), op in itertools.product(TARGETS, ("=", "+=")):
            for rhs in RHS[::3]:
                in_ctx(matrix_tag(op, tcls), "%s %s %s;" % (t, op, rhs))
    # --- expressions of the wrong kind in every expression position
    for e in EXPRS:
        add("expr-in-assign", PRELUDE + CONTEXTS["plain"] % ("n0 = [%s];" % e))
        add("expr-in-if", PRELUDE + 'parser { "a"; if %s { "b"; } elif !(%s) { "c"; } "z"; }' % (e, e))
        add("expr-in-append", PRELUDE + CONTEXTS["plain"] % ("s0 += [%s];" % e))
        add("expr-in-index", PRELUDE + CONTEXTS["plain"] % ("n0 = [s0[%s]];" % e))
        add("expr-type-mismatch", PRELUDE + CONTEXTS["plain"] % ("b0 = [%s];" % e))
        add("expr-type-mismatch", PRELUDE + CONTEXTS["plain"] % ("e0 = [%s];" % e))
        add("expr-in-cmp-enum", PRELUDE + 'parser { "a"; if e0 == %s { "b"; } "z"; }' % (e if " " not in e else "(" + e + ")"))
        add("expr-as-start-action", PRELUDE + 'parser { n0 = [%s]; "z"; }' % e)
    # --- statements (one each) in every context
    STMTS = [
        ("undefined-out", "nx = 1;"), ("undefined-out", "nx += \"a\";"), ("undefined-out", "delete nx;"), ("undefined-out", "n0 = [nx];"),
        ("undefined-out", "n0 = [nx.len];"), ("undefined-out", "n0 = [nx[0]];"),
        ("undefined-call", "nx();"), ("undefined-call", "nx(1, \"a\");"), ("undefined-call", "n0();"), ("undefined-call", "F0();"), ("undefined-call", "EA();"),
        ("undefined-enum-constant", "e0 = EZ;"), ("undefined-enum-constant", "e0 = [EZ];"), ("undefined-enum-constant", "if e0 == EZ { \"q\"; }"), ("undefined-enum-constant", "n0 = [e0 == EZ];"), ("undefined-enum-constant", "e0 = n0;"), ("undefined-enum-constant", "e0 = h0;"),
        ("undefined-enum-constant", "n0 = EA;"), ("undefined-enum-constant", "b0 = EA;"), ("undefined-enum-constant", "n0 = nx;"), ("undefined-enum-constant", "b0 = nx;"),
        ("undefined-finish-code", "finish FX;"), ("undefined-finish-code", "finish n0;"), ("undefined-finish-code", "finish h0;"), ("undefined-finish-code", "finish finish;".replace("finish finish", "finish F9")),
        ("undefined-loop-label", "break LX;"), ("undefined-loop-label", "break n0;"), ("undefined-loop-label", "break F0;"),
        ("break-outside-loop", "break;"),
        ("yield-without-support", "yield Y0;"), ("yield-without-support", "yield F0;"),
        ("end-without-eof", "end;"), ("end-without-eof", "wait end;"), ("end-without-eof", "s0 += end;"), ("end-without-eof", '("a" end);'),
        ("hook-call-args", "h0(1);"), ("hook-call-args", "h0(\"a\", /b/);"), ("hook-call", "h0();"),
        ("delete-nonstring", "delete n0;"), ("delete-nonstring", "delete b0;"), ("delete-nonstring", "delete e0;"), ("delete-nonstring", "delete r0;"), ("delete-nonstring", "delete h0;"),
        ("delete-string", "delete s0;"), ("delete-string", "delete t0;"),
        ("empty-macro-call", "m_empty();"), ("empty-macro-call", "m_empty(); m_empty();"), ("empty-macro-call", "loop { m_empty(); }"),
        ("empty-macro-call", "optional { m_empty(); }"), ("empty-macro-call", "try { m_empty(); } catch { m_empty(); }"),
        ("empty-macro-call", "foreach { m_empty(); } do { m_empty(); }"), ("empty-macro-call", "foreach { \"ab\"; } do { m_empty(); }"),
        ("empty-macro-call", "if n0 == 1 { m_empty(); }"), ("empty-macro-call", "if n0 == 1 { m_empty(); } else { m_empty(); }"),
        ("empty-macro-call", "case { \"q\" -> { m_empty(); } }"), ("empty-macro-call", "m_empty(1);"),
        ("action-only-body", "loop { n0 = 1; }"), ("action-only-body", "loop { h0(); }"), ("action-only-body", "loop { finish; }"), ("action-only-body", "loop { break; }"),
        ("action-only-body", "optional { n0 = 1; }"), ("action-only-body", "optional { finish; }"),
        ("action-only-body", "try { n0 = 1; } catch { }"), ("action-only-body", "try { n0 = 1; } catch { n0 = 2; }"), ("action-only-body", "try { \"q\"; } catch { n0 = 2; }"),
        ("action-only-body", "try { s0 += [n0]; } catch (outofspace) { n0 = 2; }"), ("action-only-body", "try { finish; } catch { finish; }"),
        ("action-only-body", "foreach { n0 = 1; } do { n0 = 2; }"), ("action-only-body", "foreach { h0(); } do { h0(); }"),
        ("action-only-body", "if n0 == 1 { n0 = 2; }"), ("action-only-body", "if n0 == 1 { finish; } else { h0(); }"),
        ("action-only-body", "case { \"q\" -> { n0 = 1; } }"), ("action-only-body", "case { \"q\" -> { finish; } else -> { h0(); } }"),
        ("empty-catch", "try { \"q\"; } catch { }"), ("empty-catch", "try { s0 += \"q\"; } catch { }"), ("empty-catch", "try { s0 += [n0]; \"q\"; } catch { }"),
        ("empty-catch", "try { \"q\"; } catch (nomatch) { }"), ("empty-catch", "try { \"q\"; } catch (outofspace) { }"), ("empty-catch", "try { \"q\"; } catch (nomatch, outofspace) { }"),
        ("empty-catch", "try { \"q\"; } catch (nomatch, nomatch) { }"), ("empty-catch", "try { try { \"q\"; } catch { } } catch { }"),
        ("empty-catch", "try { loop { \"q\"; } } catch { }"), ("empty-catch", "loop { try { \"q\"; } catch { } \";\"; }"),
        ("empty-case-clause", "case { \"q\" -> { } }"), ("empty-case-clause", "case { \"q\" -> { } \"r\" -> { } }"), ("empty-case-clause", "case { \"q\", \"r\" -> { } else -> { } }"),
        ("case-only-else", "case { else -> { } }"), ("case-only-else", "case { else -> { \"q\"; } }"), ("case-only-else", "case { else, else -> { \"q\"; } }"),
        ("case-only-else", "case { else -> { } else -> { \"q\"; } }"), ("case-only-else", "greedy case { else -> { \"q\"; } }"), ("case-only-else", "greedy case { prio 1 else -> { } }"),
        ("case-duplicate", "case { \"q\" -> { } \"q\" -> { } }"), ("case-duplicate", "case { \"q\", \"q\" -> { } }"), ("case-duplicate", "case { \"q\" -> { \"x\"; } \"q\" -> { \"y\"; } }"),
        ("case-duplicate", "case { \"q\" -> { } \"q\"i -> { } }"), ("case-duplicate", "case { /q+/ -> { } /q*/ -> { \"x\"; } }"), ("case-duplicate", "case { \"\" -> { } \"q\" -> { } }"),
        ("case-nullable", "case { /q?/ -> { \"x\"; } else -> { } }"), ("case-nullable", "case { \"\" -> { \"x\"; } }"), ("case-nullable", "case { /q*/ -> { } \"r\" -> { } }"),
        ("case-end", "case { end -> { } \"q\" -> { } }"),
        ("greedy-prio", "greedy case { prio 1 \"ab\" -> { } prio 1 /a+b/ -> { } }"), ("greedy-prio", "greedy case { prio 1 \"ab\" -> { } prio 1 /a./ -> { \"x\"; } }"),
        ("greedy-prio", "greedy case { prio 2 \"ab\" -> { } prio 1 /[a-z]+/ -> { } }"), ("greedy-prio", "greedy case { \"ab\" -> { } /[a-z]+/ -> { } }"),
        ("greedy-prio", "greedy case { prio -1 \"ab\" -> { } prio +1 /[a-z]+/ -> { } }"), ("greedy-prio", "greedy case { prio 99999999999999999999 \"ab\" -> { } /[a-z]+/ -> { } }"),
        ("greedy-prio", "greedy case { prio 1 { \"ab\" -> { } /a+/ -> { } } prio 2 { \"ab\" -> { } } }"), ("greedy-prio", "greedy case { prio 1 { \"ab\" -> { } else -> { } } }"),
        ("greedy-prio", "greedy case { prio 0 \"ab\", /a+/ -> { } }"), ("greedy-prio", "greedy case { prio 1 \"\" -> { } prio 2 /a*/ -> { } }"),
        ("greedy-prio", "greedy case { prio 1 \"ab\" -> { n0 = 1; } prio 1 \"ab\" -> { n0 = 2; } }"), ("greedy-prio", "greedy case { prio 1 /a+/ -> { n0 = 1; } prio 1 /a*b?/ -> { n0 = 2; } }"),
        ("last-at-start", "n0 = [$last];"), ("last-at-start", "s0 += [$last];"), ("last-at-start", "if $last == 'a' { \"q\"; }"), ("last-at-start", "b0 = [$last == 0];"),
        ("wait", "wait \"q\";"), ("wait", "wait \"\";"), ("wait", "wait /q?/;"), ("wait", "wait /q*/;"), ("wait", "wait /./;"), ("wait", "wait /.*/;"), ("wait", "wait (\"q\" \"r\");"),
        ("wait", "wait \"qr\"i;"), ("wait", "wait n0;"), ("wait", "wait 1;"), ("wait", "wait [1];"), ("wait", "wait nx;"), ("wait", "wait b/00/;"), ("wait", "wait \"0a\"b;"), ("wait", "s0 += wait \"q\";".replace("s0 += wait", "wait")),
        ("match-misuse", "1;"), ("match-misuse", "'c';"), ("match-misuse", "true;"), ("match-misuse", "n0;"), ("match-misuse", "s0;"), ("match-misuse", "EA;"), ("match-misuse", "[1];"),
        ("match-misuse", "[n0 + 1];"), ("match-misuse", "(1 \"a\");"), ("match-misuse", "(n0);"), ("match-misuse", "([1]);"), ("match-misuse", "((\"a\") (\"b\"));"), ("match-misuse", "nx;"), ("match-misuse", "h0;"),
        ("match-empty", "\"\";"), ("match-empty", "\"\"i;"), ("match-empty", "\"\"b;"), ("match-empty", "\"  \"b;"), ("match-empty", "(\"\" \"\");"), ("match-empty", "/a{0}/;"), ("match-empty", "/a{0,0}/;"),
        ("match-empty", "/(a|b){0}/;"), ("match-empty", "/a?/;"), ("match-empty", "/a*/;"), ("match-empty", "/(a*)*/;"), ("match-empty", "/(a?)+/;"), ("match-empty", "/()/;".replace("/()/", "/(a?)?/")),
        ("binary-string", "\"0\"b;"), ("binary-string", "\"0a0\"b;"), ("binary-string", "\"zz\"b;"), ("binary-string", "\"0a 0b\"b;"), ("binary-string", "\"0a:0b\"b;"), ("binary-string", "s0 += \"0a0\"b;"),
        ("binary-string", "\"\\x\"b;"), ("binary-string", "\"\\\"a\"b;"), ("binary-string", "case { \"0\"b -> { } }"),
        ("regex-odd", "/a{5,2}/;"), ("regex-odd", "/a{-1}/;"), ("regex-odd", "/a{+2}/;"), ("regex-odd", "/a{-3,-1}/;"), ("regex-odd", "/a{2,}/;"), ("regex-odd", "/a{0,}/;"), ("regex-odd", "/a{-2,}/;"),
        ("regex-odd", "/[z-a]/;"), ("regex-odd", "/[a-a]/;"), ("regex-odd", "/[^\\x00-\\xff]/;".replace("\\x00-\\xff", "\\w\\W")), ("regex-odd", "/[\\wz]/;"), ("regex-odd", "/[a-\\w]/;".replace("[a-\\w]", "[a\\w-]".replace("-]", "\\-]"))),
        ("regex-odd", "/a**/;".replace("a**", "(a*)*")), ("regex-odd", "/(a+)+b/;"), ("regex-odd", "/(a|a)/;"), ("regex-odd", "/(a|ab)(c|bcd)/;"), ("regex-odd", "/\\ /;"), ("regex-odd", "/\\n\\t\\r/;"),
        ("regex-odd", "/[\\n\\t\\r\\ ]/;"), ("regex-odd", "/\u20ac/;"), ("regex-odd", "/[\u20ac]/;"), ("regex-odd", "/[a-\u20ac]/;"), ("regex-odd", "/\U0001F600/;"), ("regex-odd", "/\\W\\D\\S/;"), ("regex-odd", "/[^\\W]/;"),
        ("regex-odd", "/./;"), ("regex-odd", "/.+x/;"), ("regex-odd", "/.*/;"), ("regex-odd", "/[^a]*a/;"), ("regex-odd", "/\"/;"), ("regex-odd", "/'/;"), ("regex-odd", "/a|/;".replace("a|", "a|b|c|d|e|f|g")),
        ("regex-odd", "b/00{3}/;"), ("regex-odd", "b/[00-ff]/;"), ("regex-odd", "b/[ff-00]/;"), ("regex-odd", "b/[^00-ff]/;"), ("regex-odd", "b/./;"), ("regex-odd", "b/(00|0000)+/;"), ("regex-odd", "b/aA/;"),
        ("regex-odd", "/a{3}{2}/;".replace("a{3}{2}", "(a{3}){2}")), ("regex-odd", "/(a{2,3}){2,3}/;"), ("regex-odd", "/a{1,1}/;"), ("regex-odd", "/a{007}/;"), ("regex-odd", "/[\\-\\]\\\\\\/]/;"),
        ("regex-repeat-large", "/a{100}/;"), ("regex-repeat-large", "/a{256}/;"), ("regex-repeat-large", "/(a|b){3,40}/;"), ("regex-repeat-large", "/a{50,}/;"), ("regex-repeat-large", "/(ab?){60}/;"),
        ("regex-repeat-large", "b/00{128}/;"), ("regex-repeat-large", "/[a-z]{0,200}/;"),
        ("string-append-forms", "s0 += \"\";"), ("string-append-forms", "s0 += /a?/;"), ("string-append-forms", "s0 += (\"a\" /b+/);"), ("string-append-forms", "s0 += \"ab\"i;"),
        ("string-append-forms", "s0 += \"123456789\";"), ("string-append-forms", "t0 += \"12345\";"), ("string-append-forms", "s0 += [256];"), ("string-append-forms", "s0 += [-1];"),
        ("string-append-forms", "s0 += ['\u20ac'];"), ("string-append-forms", "s0 += s0;"), ("string-append-forms", "s0 += [s0[0]];"), ("string-append-forms", "s0 = \"123456789\";"),
        ("string-append-forms", "s0 = \"12345678\";"), ("string-append-forms", "t0 = \"1234\";"), ("string-append-forms", "t0 = \"12345\";"), ("string-append-forms", "s0 = \"\";"), ("string-append-forms", "s0 = \"\\xff\\x00\";"),
        ("string-append-forms", "s0 = \"\u20ac\";"), ("string-append-forms", "s0 = \"\U0001F600\";"), ("string-append-forms", "r0 += \"ab\";"), ("string-append-forms", "r0 += /./;"), ("string-append-forms", "r0 += [1];"),
        ("string-append-forms", "r0 += [r0];"), ("string-append-forms", "r0 += [r0[0]];"), ("string-append-forms", "n0 = [r0.len];"), ("string-append-forms", "n0 = [r0[1]];"),
        ("nested-optional", "optional { optional { \"q\"; } }"), ("nested-optional", "optional { optional { \"q\"; } \"r\"; }"), ("nested-optional", "optional { \"q\"; optional { \"r\"; } }"),
        ("nested-optional", "optional { /q?/; }"), ("nested-optional", "optional { \"\"; }"), ("nested-optional", "loop { optional { \"q\"; } }"), ("nested-optional", "loop { /q?/; }"), ("nested-optional", "loop { \"\"; }"),
        ("nested-optional", "optional { loop { \"q\"; } }"), ("nested-optional", "optional { \"a\"; }"), ("nested-optional", "optional { \"z\"; }"), ("nested-optional", "optional { wait \"q\"; }"),
        ("nested-optional", "optional { case { \"q\" -> { } else -> { } } }"), ("nested-optional", "optional { try { \"q\"; } catch { } }"), ("nested-optional", "optional { finish; \"q\"; }"),
        ("loop-odd", "loop L0 { loop L0 { \"q\"; break L0; } }"), ("loop-odd", "loop L0 { \"q\"; } break L0;"), ("loop-odd", "loop { loop { \"q\"; break; } }"), ("loop-odd", "loop L1 { \"q\"; break L1; break L1; }"),
        ("loop-odd", "loop { \"q\"; break; \"r\"; }"), ("loop-odd", "loop { break; \"q\"; }"), ("loop-odd", "loop { \"q\"; finish; }"), ("loop-odd", "loop loop { \"q\"; }".replace("loop loop", "loop n0")),
        ("loop-odd", "loop h0 { \"q\"; break h0; }"), ("loop-odd", "loop { case { \"q\" -> { break; } else -> { } } }"), ("loop-odd", "loop { case { \"q\" -> { } else -> { break; } } }"),
        ("foreach-odd", "foreach { \"qr\"; } do { \"x\"; }"), ("foreach-odd", "foreach { \"qr\"; } do { finish; }"), ("foreach-odd", "foreach { \"qr\"; } do { s0 += [$last]; }"),
        ("foreach-odd", "foreach { \"qr\"; } do { if $last == 'q' { n0 = 1; } }"), ("foreach-odd", "foreach { \"qr\"; } do { if $last == 'q' { finish; } else { s0 += [$last]; } }"),
        ("foreach-odd", "foreach { foreach { \"qr\"; } do { n0 = 1; } } do { n0 = 2; }"), ("foreach-odd", "foreach { \"\"; } do { n0 = 1; }"), ("foreach-odd", "foreach { /q*/; } do { n0 = 1; }"),
        ("foreach-odd", "foreach { loop { \"q\"; } } do { n0 = 1; }"), ("foreach-odd", "foreach { \"qr\"; n0 = 1; } do { n0 = 2; }"), ("foreach-odd", "foreach { \"qr\"; } do { delete s0; s0 = \"x\"; }"),
        ("foreach-odd", "foreach { \"qr\"; } do { loop { n0 = 1; } }"), ("foreach-odd", "foreach { \"qr\"; } do { optional { n0 = 1; } }"), ("foreach-odd", "foreach { \"qr\"; } do { wait \"q\"; }"),
        ("foreach-odd", "foreach { \"qr\"; } do { case { \"q\" -> { } } }"), ("foreach-odd", "foreach { \"qr\"; } do { try { n0 = 1; } catch { } }"), ("foreach-odd", "foreach { \"qr\"; } do { m_lit(); }"),
        ("foreach-odd", "foreach { \"qr\"; } do { foreach { \"q\"; } do { n0 = 1; } }"), ("foreach-odd", "foreach { wait \"qr\"; } do { n0 = 1; }"), ("foreach-odd", "foreach { s0 += /q+/; } do { s0 += [$last]; }"),
        ("foreach-odd", "foreach { case { \"q\" -> { } \"rs\" -> { finish; } } } do { n0 = [n0 + 1]; }"), ("foreach-odd", "foreach { try { \"qr\"; } catch { \"x\"; } } do { n0 = [n0 + 1]; }"),
        ("foreach-odd", "foreach { optional { \"qr\"; } \"s\"; } do { n0 = [n0 + 1]; }"),
        ("if-odd", "if true { \"q\"; }"), ("if-odd", "if 1 { \"q\"; } elif 1 { \"r\"; } else { \"s\"; }"), ("if-odd", "if n0 == 1 { \"q\"; } elif n0 == 1 { \"q\"; }"), ("if-odd", "if n0 == 1 { \"q\"; } else { \"q\"; }"),
        ("if-odd", "if s0.len == 0 { \"q\"; } \"q\";"), ("if-odd", "if n0 == 1 { \"q\"; } \"qq\";"), ("empty-macro-call", "if n0 == 1 { m_empty(); } else { m_empty(); }"), ("if-odd", "if e0 == EA { \"q\"; }"),
        ("if-odd", "if b0 { \"q\"; }"), ("if-odd", "if !b0 { \"q\"; }"), ("if-odd", "if n0 { if n0 { if n0 { \"q\"; } } }"), ("if-odd", "if n0 == 1 { finish; } \"q\";"), ("if-odd", "if n0 == 1 { n0 = 2; } elif n0 == 2 { \"q\"; }"),
        ("if-odd", "if n0 == 1 { n0 = 2; } else { \"q\"; }"), ("if-odd", "if n0 == 1 { \"q\"; } else { n0 = 2; }"), ("if-odd", "loop { if n0 == 1 { break; } }"), ("if-odd", "loop { if n0 == 1 { break; } else { \"q\"; } }"),
        ("if-odd", "loop { if n0 == 1 { \"q\"; } }"), ("if-inside-optional", "optional { if n0 == 1 { \"q\"; } }"), ("if-odd", "if n0 == 1 { wait \"q\"; }"), ("if-odd", "if $last == 1 { \"q\"; }"),
    ]
    for tag, st in STMTS:
        in_ctx(tag, st)
    # --- programs whose parser body holds only actions / only empty things
    for body in ["h0();", "n0 = 1;", "finish;", "finish F0;", "s0 = \"x\";", "delete s0;", "s0 += [1];", "m_empty();", "n0 = 1; h0(); finish;", "if n0 == 1 { finish; }",
                 "if n0 == 1 { n0 = 2; } else { h0(); }", "\"\";", "optional { h0(); }", "loop { h0(); }", "try { h0(); } catch { }", "foreach { h0(); } do { h0(); }",
                 "case { else -> { } }", "case { else -> { h0(); } }", "m_empty(); m_empty();", "wait \"\";", "/a?/;", "optional { \"a\"; }", "loop { \"a\"; }"]:
        t = "empty-macro-call" if "m_empty" in body else "case-only-else" if body.startswith("case { else") else "parser-only-actions"
        add(t, PRELUDE + "parser { %s }" % body)
        add(t, PRELUDE + "parser { %s }" % body, ["-O0"])
        add(t, PRELUDE + "parser { %s }" % body, ["-O3", "-feof-support"])
    # --- declarations
    for n in SIZES:
        for sg in ("", "signed, ", "unsigned, "):
            t = "int-unsigned-odd-size" if sg.startswith("unsigned") else "int-width"
            add(t, 'out int{%ssize %s} x; parser { "a"; x = 1; }' % (sg, n))
            add(t, 'out int{size %s%s} x = 5; parser { "a"; x = [x + 1]; }' % (n, ", " + sg.rstrip(", ") if sg else ""))
    for attrs in ["signed, unsigned", "unsigned, signed", "size 1, size 2", "size 4, size 4", "signed, signed", "unsigned, size 2, signed", "size 8, unsigned, size 1"]:
        add("int-attr-repeat", 'out int{%s} x; parser { "a"; x = 1; }' % attrs)
    for n in STR_SIZES:
        for ty in ("str", "unterminated str"):
            add("str-size", 'out %s[%s] s; parser { "a"; s += "b"; s = "c"; }' % (ty, n))
            add("str-size", 'out %s[%s] s = "d"; parser { "a"; s += /./; delete s; }' % (ty, n))
            add("str-size", 'out %s[%s] s; out int n; parser { "a"; n = [s.len + s[0]]; }' % (ty, n), ["-fallocate-str-space-dynamic"])
    DEFAULTS = ['1', '-1', '0x10', '0b1', '2147483648', '18446744073709551616', "'c'", "'\\q'", 'true', 'false', '"x"', '""', '"abcdefghi"', '"abcdefgh"', '"x"i', '"0a"b', '"0a0"b', '""b',
                '"\\q"', '"\\xff"', '"\u20ac"', 'EA', 'EZ', 'n0', 'nx', 'x']
    TYPES = ['bool', 'int', 'int{unsigned, size 1}', 'enum{EA,EB}', 'str[8]', 'unterminated str[8]', 'str[1]', 'str[0]', 'raw{uint8_t}']
    for ty, d in itertools.product(TYPES, DEFAULTS):
        add("default-value", 'out int n0; out %s x = %s; parser { "a"; }' % (ty, d))
    for decl in ['out int x; out int x;', 'out int x; out str[2] x;', 'out int x; hook x;', 'out int x; macro x() { "a"; }', 'hook x; hook x;', 'hook x; macro x() { "a"; }', 'macro x() { "a"; } macro x() { "b"; }',
                 'finishcode x; finishcode x;', 'finishcode x, x;', 'finishcode x; out int x;', 'finishcode x; hook x;', 'out enum{A,B} x; out enum{A,B} y;', 'out enum{A,A} x;', 'out enum{x,y} x;',
                 'out enum{A,B} x; out int X;', 'out int X; out enum{A,B} x;', 'out enum{A,B} finish;', 'out int finish;', 'out enum{A,B} x; out int A;', 'out enum{A,B} x; hook A;', 'out enum{A,B} x; finishcode A;',
                 'out raw{x} x;', 'out raw{int} x;'.replace("{int}", "{unsigned}"), 'out int state; out int c;', 'out int n0; out int N0;', 'macro x(out a, out a) { "a"; }', 'macro x(out a, expr a) { "a"; }',
                 'macro x(macro x) { x(); }', 'out int parser_;', 'finishcode OK, FAIL, DONE;', 'finishcode x; finishcode y; finishcode z, w, x;', 'hook finish;'.replace("finish", "fin"), 'out bool true_;']:
        add("duplicate-decl", decl + ' parser { "a"; }')
        add("duplicate-decl", 'parser { "a"; } ' + decl)
    for decl in ['yieldcode Y0;', 'yieldcode Y0, Y0;', 'yieldcode Y0; finishcode Y0;', 'yieldcode Y0; out int Y0;']:
        add("yield-decl", decl + ' parser { "a"; }')
        add("yield-decl", decl + ' parser { "a"; }', ["-fyield-support"])
        add("yield-decl", decl + ' parser { "a"; yield Y0; "b"; }', ["-fyield-support"])
        add("yield-decl", decl + ' parser { yield Y0; }', ["-fyield-support"])
    for st in ["yield Y0;", "yield F0;", "yield YX;", "yield n0;", "loop { yield Y0; }", "loop { \"a\"; yield Y0; }", "optional { yield Y0; }", "try { yield Y0; } catch { yield Y1; }",
               "foreach { \"ab\"; } do { yield Y0; }", "foreach { \"a\"; yield Y0; \"b\"; } do { n0 = 1; }", "if n0 == 1 { yield Y0; } else { yield Y1; }", "if n0 == 1 { yield Y0; } elif n0 == 2 { finish; }",
               "case { \"q\" -> { yield Y0; } else -> { yield Y1; } }", "yield Y0; yield Y1;", "yield Y0; finish;", "finish; yield Y0;", "wait \"q\"; yield Y0;"]:
        in_ctx("yield", st, pre=YPRELUDE, flags=["-fyield-support"])
    for st in ["end;", "wait end;", "\"q\"; end;", "optional { end; }", "loop { end; }", "loop { \"q\"; } end;", "case { end -> { } \"q\" -> { } }", "case { end -> { n0 = 1; } else -> { } }",
               "(\"q\" end);", "(end \"q\");", "(end end);", "s0 += end;", "s0 += (\"q\" end);", "try { end; } catch { }", "try { \"q\"; } catch { end; }", "foreach { end; } do { n0 = 1; }",
               "foreach { \"q\"; end; } do { n0 = 1; }", "wait (\"q\" end);", "greedy case { end -> { } /q+/ -> { } }", "if n0 == 1 { end; }", "end; end;", "end; \"q\";", "optional { \"q\"; } end;", "/q*/; end;"]:
        in_ctx("end", st, flags=["-feof-support"], always=("plain", "last"))
    # --- string / char escapes
    for c in ESC_CHARS:
        if c == "\n":
            continue
        esc = "\\" + c
        add("string-escape", 'out str[8] s0; parser { "a%sb"; }' % esc)
        add("string-escape", 'out str[8] s0 = "%s"; parser { "a"; s0 = "%s"; s0 += "%s"i; }' % (esc, esc, esc))
        add("char-escape", "out int n0; parser { \"a\"; n0 = ['%s']; }" % esc)
        if c not in "'\\":
            add("char-plain", "out int n0; parser { \"a\"; n0 = ['%s']; n0 = '%s'; }" % (c, c))
        if c not in '"\\':
            add("string-plain", 'out str[8] s0; parser { "a%sb"; s0 += "%s"i; }' % (c, c))
    for body in ["\\x", "\\x1", "\\x1g", "\\xg1", "\\x1\\", "\\x\\x", "\\u1234", "\\U00012345", "\\x00", "\\xFf", "\\x7", "a\\", "\\\\", "\\\\\\\\", "\\\"", "\\'", "\t", "\r", "\x0b"]:
        if body.endswith("\\") and not body.endswith("\\\\"):
            continue
        t = "line-separator-in-literal" if body in ("\r", "\x0b") else "string-escape"
        add(t, 'out str[8] s0; parser { "%s"; s0 = "%s"; }' % (body, body))
        add(t, 'out str[8] s0 = "%s"; parser { "a"; }' % body)
        add(t, 'parser { "%s"i; }' % body)
        add(t, 'parser { case { "%s" -> { } "%sx" -> { } } }' % (body, body))
    # --- macros: every parameter kind x every argument form; counts
    for kind, use in MACRO_KINDS.items():
        pk = kind
        macro = "macro mk(%s p) { %s } " % (pk, use)
        fl = ["-fyield-support"]
        for a in MACRO_ARGS:
            if (kind, a) in (("macro", "m_empty"), ("out", "r0")):
                continue    # these are the empty-macro-call / assign-to-raw classes, probed on their own
            add("macro-arg-" + kind, YPRELUDE + macro + 'parser { loop L0 { "a"; mk(%s); "b"; } "z"; }' % a, fl)
            add("macro-arg-" + kind, YPRELUDE + macro + 'macro outer(%s q) { mk(q); } parser { loop L0 { "a"; outer(%s); "b"; } "z"; }' % (pk, a), fl)
        add("macro-arg-capture", YPRELUDE + macro + 'parser { loop L0 { "a"; mk(p); "b"; } "z"; }', fl)
        for call in ["mk();", "mk(n0, n0);", "mk(n0, s0, h0);", "mk(mk);"]:
            add("macro-arg-count", YPRELUDE + macro + 'parser { loop L0 { "a"; %s "b"; } "z"; }' % call, fl)
        add("macro-arg-unused", YPRELUDE + "macro mk(%s p) { \"q\"; } " % pk + 'parser { loop L0 { "a"; mk(nx); "b"; } "z"; }', fl)
    for src, tag in [
        ('macro m() { m(); } parser { m(); }', "macro-recursion"), ('macro m() { "a"; m(); } parser { m(); }', "macro-recursion"),
        ('macro a() { "a"; b(); } macro b() { "b"; a(); } parser { a(); }', "macro-recursion"), ('macro m(macro f) { f(f); } parser { m(m); }', "macro-recursion"),
        ('macro m(macro f) { "a"; f(); } macro k() { m(k); } parser { k(); }', "macro-recursion"),
        ('out int n0; macro m_in(expr e) { n0 = e; } macro m_out(expr e) { m_in([e]); } parser { "a"; m_out([1]); }', "macro-arg-capture"),
        ('out int n0; macro m_in(expr e) { n0 = [e]; } macro m_out(expr e) { m_in(e); } parser { "a"; m_out([1]); }', "macro-arg-capture"),
        ('out int n0; macro m_in(expr e) { n0 = [e + 1]; } macro m_out(expr e) { m_in([e + 1]); } parser { "a"; m_out([1]); }', "macro-arg-capture"),
        ('out str[4] s0; macro m_in(match w) { s0 += w; } macro m_out(match w) { m_in(w); } parser { "a"; m_out("x"); }', "macro-arg-capture"),
        ('out str[4] s0; macro m_in(match w) { s0 += w; } macro m_out(match w) { m_in((w "y")); } parser { "a"; m_out("x"); }', "macro-arg-capture"),
        ('out int n0; macro m(out n0) { n0 = 1; } parser { "a"; m(n0); }', "macro-shadow"), ('out int n0; out int n1; macro m(out n0, out n1) { n0 = 1; n1 = [n0]; } parser { "a"; m(n1, n0); }', "macro-shadow"),
        ('hook h0; macro m(hook h0) { h0(); } parser { "a"; m(h0); }', "macro-shadow"), ('out int n0; macro m(expr n0) { n0 = [n0]; } parser { "a"; m([1]); }', "macro-shadow"),
        ('out int n0; macro m(match n0) { n0; n0 = 1; } parser { "a"; m("b"); }', "macro-shadow"), ('macro m(macro m) { m(); } macro k() { "k"; } parser { m(k); }', "macro-shadow"),
        ('macro m(loop l) { break l; } parser { "a"; m(l); }', "macro-loop-arg"), ('macro m(loop l) { loop l { "a"; break l; } } parser { loop l { m(l); "b"; } }', "macro-loop-arg"),
        ('macro m(loop l) { "a"; break l; } parser { loop A { loop B { m(A); } } "z"; }', "macro-loop-arg"), ('macro m() { break; } parser { loop { "a"; m(); } "z"; }', "macro-loop-arg"),
        ('macro m() { break; } parser { "a"; m(); "z"; }', "macro-loop-arg"), ('macro m() { loop X { "a"; } } parser { m(); break X; }'.replace('"a"; }', '"a"; break X; }'), "macro-loop-arg"),
        ('macro m() { "a"; } parser { m; }', "macro-misuse"), ('macro m() { "a"; } parser { m = 1; }', "macro-misuse"), ('macro m() { "a"; } out int n; parser { n = [m]; }', "macro-misuse"),
        ('macro m() { "a"; } parser { wait m; }', "macro-misuse"), ('macro m() { "a"; } parser { "b"; delete m; }', "macro-misuse"), ('macro m(expr e) { e; } parser { m("a"); }', "macro-misuse"),
        ('macro m(expr e) { e; } parser { m([1]); }', "macro-misuse"), ('macro m(match w) { w; } out int n; parser { m([n]); }', "macro-misuse"), ('macro m(match w) { w; } parser { m(1); }', "macro-misuse"),
        ('out int n; macro m(match w) { n = w; } parser { "a"; m("x"); }', "macro-misuse"), ('out int n; macro m(match w) { n = [w]; } parser { "a"; m("x"); }', "macro-misuse"),
        ('out int n; macro m(expr e) { n = e; } parser { "a"; m("x"); }', "macro-misuse"), ('out int n; macro m(expr e) { n = [e]; } parser { "a"; m(/x/); }', "macro-misuse"),
        ('out int n; macro m(expr e) { if e { "q"; } } parser { "a"; m([n == 1]); m(n); m(1); m(true); }', "macro-misuse"),
        ('out str[4] s; macro m(expr e) { s += e; } parser { "a"; m("x"); m(/y/); m([1]); m(1); m(s); }', "macro-misuse"),
        ('out str[4] s; macro m(match w) { s += w; s = w; } parser { "a"; m("x"); }', "macro-misuse"), ('out str[4] s; macro m(match w) { s = w; } parser { "a"; m(/x/); }', "macro-misuse"),
        ('out str[4] s; macro m(out o) { o += "x"; o = "y"; delete o; } out int n; parser { "a"; m(s); m(n); }', "macro-misuse"),
        ('out int n; macro m(out o) { n = [o.len + o[0] + o]; } out str[2] s; parser { "a"; m(s); }', "macro-misuse"),
        ('out enum{A,B} e; macro m(out o) { o = A; } out int n; parser { "a"; m(e); m(n); }', "undefined-enum-constant"), ('out enum{A,B} e; macro m(expr x) { e = x; } parser { "a"; m(A); m(C); }', "undefined-enum-constant"),
        ('out enum{A,B} e; macro m(expr x) { if e == x { "q"; } } parser { "a"; m(A); m(C); }', "undefined-enum-constant"),
        ('macro m(finishcode c) { finish c; } finishcode F; parser { "a"; m(F); m(G); }', "macro-misuse"), ('macro m(hook h) { h(); } hook k; parser { "a"; m(k); m(m); }', "macro-misuse"),
        ('macro m(macro f) { f(); } macro k(expr e) { "k"; } parser { "a"; m(k); }', "macro-misuse"), ('macro m(macro f) { f(1); } macro k() { "k"; } parser { "a"; m(k); }', "macro-misuse"),
        ('macro m(macro f, expr e) { f(e); } out int n; macro k(expr x) { n = [x]; } parser { "a"; m(k, [n + 1]); }', "macro-misuse"),
        ('macro m() { } parser { m(); }', "empty-macro-call"), ('macro m() { } parser { m(); "a"; }', "empty-macro-call"), ('macro m() { } parser { "a"; m(); }', "empty-macro-call"),
        ('macro m() { } macro k() { m(); } parser { "a"; k(); "b"; }', "empty-macro-call"), ('macro m(macro f) { f(); } macro e() { } parser { "a"; m(e); "b"; }', "empty-macro-call"),
        ('macro m() { } parser { loop { m(); "a"; } }', "empty-macro-call"), ('macro m() { } parser { case { "a" -> { m(); } } }', "empty-macro-call"),
    ]:
        add(tag, src)
        add(tag, src, ["-O3"])
    # --- conditional actions mixing finish / break / append-with-handler branches
    acts = list(ACTIONS)
    i = 0
    for a, b in itertools.product(acts, acts):
        for tmpl_name, tmpl in (("loop", ACT_LOOP), ("try", ACT_TRY)):
            cond2 = "if n0 == 3 { %s } elif n0 == 5 { %s }" % (ACTIONS[a], ACTIONS[b])
            cond3 = "if n0 == 3 { %s } elif n0 == 5 { %s } else { %s }" % (ACTIONS[a], ACTIONS[b], ACTIONS[acts[(i + 3) % len(acts)]])
            levels = ["-O0", "-O1", "-O2", "-O3"] if not quick else ["-O%d" % (1 + i % 3)]
            for lv in levels:
                add("conditional-actions-" + tmpl_name, PRELUDE + tmpl % cond2, [lv])
            add("conditional-actions-" + tmpl_name, PRELUDE + tmpl % cond3, ["-O%d" % (i % 4)])
            i += 1
    for a in acts:
        for b in acts:
            add("conditional-actions-do", PRELUDE + ACT_DO % ("if $last == 'a' { %s } else { %s }" % (ACTIONS[a], ACTIONS[b])), ["-O%d" % (i % 4)])
            i += 1
    # the two shapes the seeded change is about, at every level and with strict done tokens (always present)
    for lv in (["-O0"], ["-O1"], ["-O2"], ["-O3"], ["-O1", "-fstrict-done-token-generation"], []):
        add("conditional-actions-loop", 'out int n0; parser { loop { if n0 == 3 { break; } elif n0 == 5 { finish; } "ab"; n0 = [n0 + 1]; } "tail"; }', lv)
        add("conditional-actions-try", 'out int n0; out str[4] s0; parser { try { "x"; if n0 == 3 { s0 += [n0]; } elif n0 == 5 { finish; } "tail"; } catch (outofspace) { "zz"; } }', lv)
        add("empty-catch", 'parser { try { "a"; } catch { } }', lv)
        add("empty-catch", 'out str[2] s0; parser { try { s0 += /a+/; } catch { } "z"; }', lv)
    # --- numeric extremes in every position that takes a number
    for v in ['2147483647', '2147483648', '-2147483649', '4294967295', '4294967296', '9223372036854775807', '9223372036854775808', '18446744073709551615', '18446744073709551616',
              '-18446744073709551616', '0x80000000', '0xFFFFFFFFFFFFFFFF', '0x10000000000000000', '0b' + '1' * 64, '0b' + '1' * 65, '1' + '0' * 40]:
        for ty in ('int', 'int{unsigned}', 'int{size 1}', 'int{unsigned, size 8}', 'int{size 8}', 'bool'):
            add("numeric-extreme", 'out %s x = %s; parser { "a"; x = %s; x = [x + %s]; if x == %s { "b"; } }' % (ty, v, v, v, v))
        add("numeric-extreme", 'out str[4] s; out int n; parser { "a"; s += [%s]; n = [s[%s]]; n = [1 << %s]; n = [n / %s]; }' % (v, v, v, v))
    # --- slow inputs (reported with the time they take; a time limit hit is a violation)
    for rx in ["/a{300}/", "/(a|b){3,80}/", "/[a-z]{1,150}/", "/(ab|cd|ef){100}/", "/a{150}b{150}/"]:
        add("regex-repeat-large", "parser { %s; }" % rx)
    for rx in ["/a{1000}/", "/(a|b){3,400}/"]:
        add("regex-repeat-huge", "parser { %s; }" % rx)
    long_alt = "|".join("k%03d" % k for k in range(150))
    add("long-alternation", 'parser { /%s/; }' % long_alt)
    add("many-case-clauses", 'parser { case { %s } }' % " ".join('"k%03d" -> { }' % k for k in range(120)))
    add("many-statements", 'out int n; parser { %s }' % " ".join('"w%d"; n = [n + %d];' % (k, k) for k in range(150)))
    for n in (300, 900, 1100, 1600):
        add("long-literal", 'parser { "%s"; }' % ("x" * n))
        add("long-literal", 'parser { "%s"; }' % ("x" * n), ["-O0"])
    add("long-literal", 'out str[4000] s = "%s"; parser { "a"; s = "%s"; }' % ("x" * 3000, "y" * 3000))   # stored, not matched: no long state chain
    add("long-literal", 'parser { "%s"i; }' % ("x" * 600))
    add("long-literal", 'parser { "%s"b; }' % ("0a" * 1200))
    add("long-expression", 'out int n; parser { "a"; n = [%s]; }' % " + ".join(["n"] * 300))
    add("long-expression", 'out int n; parser { "a"; n = [%s]; }' % " + ".join(["n"] * 1500))
    add("deep-parens", 'out int n; parser { "a"; n = [%s1%s]; }' % ("(" * 150, ")" * 150))
    add("deep-parens", 'parser { %s"a"%s; }' % ("(" * 100, ")" * 100))
    add("deep-parens", 'parser { /%sa%s/; }' % ("(" * 100, ")" * 100))
    add("deep-nesting", 'parser { %s "a"; %s }' % ("optional { " * 40, "} " * 40))
    add("deep-nesting", 'parser { %s "a"; %s }' % ("loop { " * 40, "} " * 40))
    add("deep-nesting", 'parser { %s "a"; %s }' % ("try { " * 30, "} catch { } " * 30))
    add("deep-nesting", 'out int n; parser { "a"; %s "b"; %s }' % ("if n == 1 { " * 30, "} " * 30))
    add("deep-nesting", 'parser { %s "a"; %s }' % ('case { "b" -> { ' * 30, "} } " * 30))
    return out


# ---------------------------------------------------------------------------
# stream 2: random derivations of the lark grammar of the current nmfu.py
# ---------------------------------------------------------------------------
class Unsupported(Exception):
    pass


KNOWN_TERMINALS = {"NUMBER", "BOOL_CONST", "CATCH_OPTION", "RESULT_CODE", "RADIX_NUMBER", "IDENTIFIER", "STRING", "REGEX_UNIMPORTANT", "REGEX_OP",
                   "REGEX_CHARGROUP_ELEMENT_RAW", "REGEX_CHARCLASS", "REGEX_BYTE", "SUM_OP", "MUL_OP", "CMP_OP", "CHAR_CONSTANT", "SHIFT_OP", "SIGNED"}


class GrammarWalk:
    def __init__(self, rng, max_depth=48, p_short=0.6, max_tokens=90):
        import nmfu
        self.nmfu = nmfu
        self.r = rng
        self.max_depth = max_depth
        self.p_short = p_short
        self.max_tokens = max_tokens
        self.rules = list(nmfu.parser.rules)
        self.by_origin = {}
        for i, rule in enumerate(self.rules):
            self.by_origin.setdefault(rule.origin.name, []).append(i)
        self.terms = {t.name: t for t in nmfu.parser.terminals}
        for t in self.terms.values():
            if type(t.pattern).__name__ != "PatternStr" and t.name not in KNOWN_TERMINALS and t.name not in ("WS", "COMMENT"):
                raise Unsupported("terminal %s of the grammar has no sampler" % t.name)
        self.reachable = self._reachable("start")
        self.minh = self._min_heights()
        self.used = set()

    def _reachable(self, start):
        seen, todo = set(), [start]
        while todo:
            n = todo.pop()
            if n in seen:
                continue
            seen.add(n)
            for i in self.by_origin.get(n, []):
                for s in self.rules[i].expansion:
                    if not s.is_term:
                        todo.append(s.name)
        return seen

    def _min_heights(self):
        h = {}
        changed = True
        while changed:
            changed = False
            for name, idxs in self.by_origin.items():
                best = h.get(name)
                for i in idxs:
                    hs = [0 if s.is_term else h.get(s.name) for s in self.rules[i].expansion]
                    if any(x is None for x in hs):
                        continue
                    v = 1 + max(hs, default=0)
                    if best is None or v < best:
                        best = v
                if best is not None and h.get(name) != best:
                    h[name] = best
                    changed = True
        return h

    def rule_height(self, i):
        return 1 + max([0 if s.is_term else self.minh[s.name] for s in self.rules[i].expansion], default=0)

    def total_rules(self):
        return sorted(i for n in self.reachable for i in self.by_origin.get(n, []))

    # ---- name pools ----
    def reset(self):
        self.pools = {"out": [], "hook": [], "macro": [], "fcode": [], "ycode": [], "enumc": [], "label": [], "param": []}
        self.types = {}
        self.n = 0
        self.local = []       # stack of dict kind -> [names] for macro parameters
        self.cur_used = set()

    def fresh(self, prefix):
        self.n += 1
        return "%s%d" % (prefix, self.n)

    def pick(self, kinds, p_wrong=0.12):
        r = self.r
        if r.random() < p_wrong:
            allnames = [n for v in self.pools.values() for n in v]
            return r.choice(allnames + ["nx", "undefined_name", "last", "finish", "EA"])
        cands = []
        for k in kinds:
            cands += self.pools.get(k, [])
            for fr in self.local:
                cands += fr.get(k, [])
        return r.choice(cands) if cands else "nx"

    # ---- terminals ----
    def term(self, name, stack):
        r = self.r
        t = self.terms[name]
        if type(t.pattern).__name__ == "PatternStr":
            return t.pattern.value
        if name == "NUMBER" and any("regex" in o for o, _, _ in stack):
            return r.choice(["0", "1", "2", "3", "4", "6", "+2", "-1", "007", "12"])
        if name == "NUMBER":
            return r.choice(["0", "1", "2", "3", "4", "8", "16", "+2", "-1", "007", "255", "256", "70", "2147483648", "18446744073709551616"])
        if name == "RADIX_NUMBER":
            return r.choice(["0", "1", "2", "5", "8", "64", "255", "256", "-1", "+3", "0x0", "0x10", "-0x1", "0xFFFFFFFFFFFFFFFFFF", "0b", "0b0", "0b101", "2147483648", "4294967296", "18446744073709551616"])
        if name == "BOOL_CONST":
            return r.choice(["true", "false"])
        if name == "CATCH_OPTION":
            return r.choice(["nomatch", "outofspace"])
        if name == "RESULT_CODE":
            return r.choice(["finishcode", "finishcode", "yieldcode"])
        if name == "SIGNED":
            return r.choice(["signed", "unsigned"])
        if name == "STRING":
            parts = []
            for _ in range(r.choice([0, 1, 1, 2, 3, 5])):
                parts.append(r.choice(["a", "b", "c", "0", "9", " ", ":", "\\n", "\\\\", "\\\"", "\\x41", "\\xff", "\\0", "\\t", "\\q", "\\x", "\\u1234", "\u00e9", "\u20ac", "z", "ff", "0a"]))
            return '"' + "".join(parts) + '"'
        if name == "CHAR_CONSTANT":
            return r.choice(["'a'", "'0'", "' '", "'\\n'", "'\\0'", "'\\''", "'\\\\'", "'\"'", "'\\q'", "'\u00e9'", "'\u20ac'", "'\\x'", "';'"])
        if name == "REGEX_UNIMPORTANT":
            return r.choice(["a", "b", "c", "x", "0", "1", ":", ";", "-", "^", "\\.", "\\*", "\\(", "\\)", "\\[", "\\]", "\\+", "\\\\", "\\{", "\\}", "\\|", "\\/", "\"", "'", "\u00e9"])
        if name == "REGEX_OP":
            return r.choice(["+", "*", "?"])
        if name == "REGEX_CHARGROUP_ELEMENT_RAW":
            return r.choice(["a", "c", "f", "z", "0", "9", "A", "Z", "_", ".", "*", "^", "\\-", "\\]", "\\\\", "\\/", "\u00e9"])
        if name == "REGEX_CHARCLASS":
            return r.choice(list("wWdDsSntr "))
        if name == "REGEX_BYTE":
            return r.choice(["00", "0a", "41", "7f", "80", "ff", "FF", "aB"])
        if name == "SUM_OP":
            return r.choice(["+", "-"])
        if name == "MUL_OP":
            return r.choice(["*", "/", "%"])
        if name == "CMP_OP":
            return r.choice(["==", "!=", "<", ">", "<=", ">="])
        if name == "SHIFT_OP":
            return r.choice(["<<", ">>"])
        if name == "IDENTIFIER":
            return self.identifier(stack)
        raise Unsupported("terminal %s" % name)

    def identifier(self, stack):
        """stack: list of (origin, alias, position) from the root; the innermost frame decides the kind"""
        r = self.r
        for origin, alias, pos in reversed(stack):
            key = alias or origin
            if key == "out_decl":
                nm_ = self.fresh("v")
                self.pools["out"].append(nm_)
                return nm_
            if key == "enum_type" or (origin.startswith("__code_decl") and any((a or o) == "enum_type" for o, a, _ in stack)):
                nm_ = self.fresh("E")
                self.pools["enumc"].append(nm_)
                return nm_
            if key == "code_decl" or origin.startswith("__code_decl"):
                nm_ = self.fresh("C")
                self.pools[self._code_pool].append(nm_)
                return nm_
            if key == "raw_type":
                return r.choice(["uint8_t", "uint16_t", "int32_t", "foo_t", "char"])
            if key == "hook_decl":
                nm_ = self.fresh("h")
                self.pools["hook"].append(nm_)
                return nm_
            if key == "macro_decl":
                nm_ = self.fresh("m")
                self._pending_macro = nm_
                return nm_
            if origin == "macro_arg":
                nm_ = self.fresh("p")
                kind = {"macro_macro_arg": "macro", "macro_out_arg": "out", "macro_match_expr_arg": "param", "macro_int_expr_arg": "param", "macro_hook_arg": "hook",
                        "macro_breaktgt_arg": "label", "macro_rescode_arg": "fcode"}.get(alias, "param")
                if alias == "macro_rescode_arg" and self._last_rescode == "yieldcode":
                    kind = "ycode"
                if self.local:
                    self.local[-1].setdefault(kind, []).append(nm_)
                return nm_
            if key in ("assign_stmt", "append_stmt", "delete_stmt"):
                return self.pick(["out"])
            if key == "call_stmt":
                return self.pick(["macro", "hook", "hook"])
            if key == "break_stmt":
                return self.pick(["label"], 0.2)
            if key == "custom_finish_stmt":
                return self.pick(["fcode"])
            if key == "custom_yield_stmt":
                return self.pick(["ycode"])
            if key == "loop_stmt":
                nm_ = self.fresh("L")
                self.pools["label"].append(nm_)
                return nm_
            if key == "identifier_const":
                return self.pick(["enumc", "param", "out", "macro", "hook", "label", "fcode"], 0.1)
            if key in ("math_var",):
                return self.pick(["out", "out", "enumc", "param"], 0.1)
            if key in ("math_str_len", "math_str_index"):
                return self.pick(["out"], 0.1)
            if key == "builtin_math_var":
                return r.choice(["last", "last", "last", "first", "len"])
        return "nx"

    # ---- derivation ----
    def gen(self, name, depth, stack, out, in_regex):
        r = self.r
        idxs = self.by_origin[name]
        budget = self.max_depth - depth
        ok = [i for i in idxs if self.rule_height(i) <= budget]
        if not ok:
            m = min(self.rule_height(i) for i in idxs)
            ok = [i for i in idxs if self.rule_height(i) == m]
        # prefer alternatives not used yet (coverage), then uniform
        fresh = [i for i in ok if i not in self.used]
        if len(out) > self.max_tokens:
            m = min(self.rule_height(i) for i in idxs)
            i = r.choice([i for i in idxs if self.rule_height(i) == m])
        elif fresh and r.random() < 0.5:
            i = r.choice(fresh)
        elif r.random() < self.p_short:
            m = min(self.rule_height(i) for i in ok)
            i = r.choice([i for i in ok if self.rule_height(i) <= m + 1])
        else:
            i = r.choice(ok)
        rule = self.rules[i]
        self.cur_used.add(i)
        alias = rule.alias
        is_regex = in_regex or name in ("regex", "binary_regex")
        if name == "macro_decl":
            self.local.append({})
        for pos, s in enumerate(rule.expansion):
            if s.is_term:
                txt = self.term(s.name, stack + [(name, alias, pos)])
                if s.name == "RESULT_CODE":
                    self._last_rescode = txt
                    self._code_pool = "ycode" if txt == "yieldcode" else "fcode"
                out.append((txt, is_regex))
            else:
                self.gen(s.name, depth + 1, stack + [(name, alias, pos)], out, is_regex)
        if name == "macro_decl":
            self.local.pop()
            self.pools["macro"].append(self._pending_macro)

    def program(self):
        """-> (source, rule indexes used).  Declarations are derived before the parser body so that the body can refer to them."""
        self.reset()
        self._code_pool = "fcode"
        self._last_rescode = "finishcode"
        self._pending_macro = "m0"
        r = self.r
        pieces = {"pre": [], "post": []}
        # choose a `start` alternative by hand (generation order differs from textual order)
        n_pre, n_post = r.choice([(0, 0), (1, 0), (2, 0), (3, 0), (4, 1), (5, 0), (0, 2), (6, 2)])
        start_rules = self.by_origin["start"]
        def start_alt(has_pre, has_post):
            for i in start_rules:
                names = [s.name for s in self.rules[i].expansion]
                pre = len(names) > 0 and names[0] != "parser_decl"
                post = names[-1] != "parser_decl"
                if pre == has_pre and post == has_post:
                    return i
            raise Unsupported("start alternatives changed")
        self.cur_used.add(start_alt(n_pre > 0, n_post > 0))
        star = [s.name for s in self.rules[start_alt(True, True)].expansion][0]
        star_rules = self.by_origin[star]
        # the helper rule __start_star_0 : top_decl | __start_star_0 top_decl
        texts = []
        kinds_wanted = ["out_decl", "out_decl", "out_decl", "hook_decl", "code_decl", "macro_decl"]
        for k in range(n_pre + n_post):
            toks = []
            # mark the star rule alternatives as used according to the count
            for i in star_rules:
                if len(self.rules[i].expansion) == 1 or (n_pre > 1 or n_post > 1):
                    self.cur_used.add(i)
            self.gen("top_decl", 2, [("start", None, 0)], toks, False)
            texts.append(self.join(toks))
        body = []
        self.gen("parser_decl", 1, [("start", None, 1)], body, False)
        src = " ".join(texts[:n_pre] + [self.join(body)] + texts[n_pre:])
        return src, set(self.cur_used)

    @staticmethod
    def join(toks):
        out = []
        prev_regex = False
        for txt, is_regex in toks:
            if out and not (is_regex and prev_regex):
                out.append(" ")
            out.append(txt)
            prev_regex = is_regex
        return "".join(out)

    def rule_name(self, i):
        rule = self.rules[i]
        return "%s%s: %s" % (rule.origin.name, " -> " + rule.alias if rule.alias else "", " ".join(s.name for s in rule.expansion))


# ---------------------------------------------------------------------------
# stream 3: one semantic mutation of a valid program
# ---------------------------------------------------------------------------
KEYWORDS = set("out bool int enum str unterminated raw size hook macro match expr loop parser break delete finish yield wait elif case greedy optional try foreach do if else catch prio end "
               "true false nomatch outofspace yieldcode finishcode signed unsigned i b".split())
TOKEN_RE = re.compile(r'"(?:[^"\\]|\\.)*"|\'(?:[^\'\\]|\\.)\'|b?/(?:[^/\\\n]|\\.)+/|[A-Za-z_][A-Za-z_0-9]*|[+-]?0x[0-9a-fA-F]+|\d+|\+=|==|!=|<=|>=|<<|>>|&&|\|\||->|\S')


def tokenize(src):
    return [(m.start(), m.end(), m.group(0)) for m in TOKEN_RE.finditer(src)]


def mutate(src, rng):
    """-> (mutated source, mutation name) or (None, None)"""
    toks = tokenize(src)
    idents = [t for t in toks if re.fullmatch(r"[A-Za-z_][A-Za-z_0-9]*", t[2]) and t[2] not in KEYWORDS]
    names = sorted({t[2] for t in idents})
    strings = [t for t in toks if t[2].startswith('"')]
    numbers = [t for t in toks if re.fullmatch(r"[+-]?0x[0-9a-fA-F]+|\d+", t[2])]
    regexes = [t for t in toks if re.match(r"b?/", t[2]) and len(t[2]) > 2]
    ops = [t for t in toks if t[2] in ("=", "+=")]
    choices = []
    if idents:
        choices += ["rename-undefined", "rename-other", "rename-other"]
    if strings:
        choices += ["string-to-number", "string-escape", "string-to-casei", "string-to-binary", "string-empty"]
    if numbers:
        choices += ["number-huge", "number-negative", "number-to-string", "number-0b"]
    if regexes:
        choices += ["regex-to-number", "regex-nullable", "regex-repeat"]
    if ops:
        choices += ["swap-assign-append"] * 2
    choices += ["drop-decl", "dup-decl", "drop-statement", "wrap-optional", "wrap-loop", "insert-empty-macro", "insert-break", "insert-last"]
    m = rng.choice(choices)
    def repl(tok, text):
        return src[:tok[0]] + text + src[tok[1]:]
    if m == "rename-undefined":
        return repl(rng.choice(idents), "nx"), m
    if m == "rename-other":
        t = rng.choice(idents)
        others = [n for n in names if n != t[2]]
        if not others:
            return None, None
        return repl(t, rng.choice(others)), m
    if m == "string-to-number":
        return repl(rng.choice(strings), rng.choice(["1", "'c'", "true", "[1]"])), m
    if m == "string-escape":
        t = rng.choice(strings)
        return repl(t, t[2][:-1] + rng.choice(["\\q", "\\x", "\\x4", "\\u0041", "\\xzz", "\u20ac", "\\0", "\\'"]) + '"'), m
    if m == "string-to-casei":
        t = rng.choice(strings)
        return src[:t[1]] + "i" + src[t[1]:], m
    if m == "string-to-binary":
        t = rng.choice(strings)
        return src[:t[1]] + "b" + src[t[1]:], m
    if m == "string-empty":
        return repl(rng.choice(strings), '""'), m
    if m == "number-huge":
        return repl(rng.choice(numbers), rng.choice(["2147483648", "4294967296", "18446744073709551616", "0xFFFFFFFFFFFFFFFFFF", "99999999999999999999999"])), m
    if m == "number-negative":
        return repl(rng.choice(numbers), rng.choice(["-1", "-8", "0", "+0"])), m
    if m == "number-to-string":
        return repl(rng.choice(numbers), rng.choice(['"x"', "/x/", "true", "nx"])), m
    if m == "number-0b":
        return repl(rng.choice(numbers), "0b"), m
    if m == "regex-to-number":
        return repl(rng.choice(regexes), rng.choice(["1", "[1]", "true", '""'])), m
    if m == "regex-nullable":
        t = rng.choice(regexes)
        return repl(t, t[2][:-1] + rng.choice(["?", "*", "{0}", "{0,2}"]) + "/" if not t[2].startswith("b") else t[2]), m
    if m == "regex-repeat":
        t = rng.choice(regexes)
        pre = "b/(" if t[2].startswith("b") else "/("
        body = t[2][2:-1] if t[2].startswith("b") else t[2][1:-1]
        return repl(t, pre + body + "){%s}/" % rng.choice(["0", "1", "3", "2,1", "0,3", "40", "-1", "2,"])), m
    if m == "swap-assign-append":
        t = rng.choice(ops)
        return repl(t, "+=" if t[2] == "=" else "="), m
    decls = list(re.finditer(r"(?:out\s[^;{]*(?:\{[^}]*\})?[^;]*;|hook\s+\w+\s*;|(?:finish|yield)code\s[^;]*;)", src))
    if m == "drop-decl":
        if not decls:
            return None, None
        d = rng.choice(decls)
        return src[:d.start()] + src[d.end():], m
    if m == "dup-decl":
        if not decls:
            return None, None
        d = rng.choice(decls)
        return src[:d.end()] + " " + d.group(0) + src[d.end():], m
    pm = re.search(r"parser\s*\{", src)
    if not pm:
        return None, None
    semis = [t for t in toks if t[2] == ";" and t[0] > pm.end()]
    if m == "drop-statement":
        if len(semis) < 2:
            return None, None
        k = rng.randrange(len(semis) - 1)
        return src[:semis[k][1]] + src[semis[k + 1][1]:], m
    if not semis:
        return None, None
    at = rng.choice(semis)[1]
    ins = {"wrap-optional": ' optional { "q"; } optional { /q?/; } ', "wrap-loop": ' loop { /q*/; break; } ',
           "insert-empty-macro": " m_zz(); ", "insert-break": " break; ", "insert-last": ' if $last == 1 { finish; } '}[m]
    out = src[:at] + ins + src[at:]
    if m == "insert-empty-macro":
        out = "macro m_zz() { } " + out
    return out, m


# ---------------------------------------------------------------------------
# minimisation (delta debugging over declarations / statements, keeping the program parsing)
# ---------------------------------------------------------------------------
def _split_top(src):
    """top-level chunks: declarations (end at `;` outside braces) and macro / parser blocks (end at their closing brace)"""
    toks = tokenize(src)
    chunks, depth, start = [], 0, 0
    for (a, b, t) in toks:
        if t == "{":
            depth += 1
        elif t == "}":
            depth -= 1
            head = src[start:b].lstrip()
            if depth == 0 and (head.startswith("macro") or head.startswith("parser")):
                chunks.append(src[start:b]); start = b
        elif t == ";" and depth == 0:
            chunks.append(src[start:b]); start = b
    if src[start:].strip():
        chunks.append(src[start:])
    return [c.strip() for c in chunks if c.strip()]


def _split_body(body):
    """statements (or case clauses) of a block body (the text between its braces)"""
    toks = tokenize(body)
    parts, depth, start = [], 0, 0
    n = len(toks)
    for k, (a, b, t) in enumerate(toks):
        if t in ("{", "[", "("):
            depth += 1
        elif t in ("}", "]", ")"):
            depth -= 1
            if depth == 0 and t == "}":
                nxt = toks[k + 1][2] if k + 1 < n else ""
                if nxt not in ("catch", "do", "elif", "else"):
                    parts.append(body[start:b]); start = b
        elif t == ";" and depth == 0:
            parts.append(body[start:b]); start = b
    if body[start:].strip():
        parts.append(body[start:])
    return [p.strip() for p in parts if p.strip()]


def _brace_groups(st):
    """(open, close) offsets of the top-level { } groups of a statement"""
    out, depth, op = [], 0, None
    for (a, b, t) in tokenize(st):
        if t == "{":
            if depth == 0:
                op = a
            depth += 1
        elif t == "}":
            depth -= 1
            if depth == 0 and op is not None:
                out.append((op, a)); op = None
    return out


def minimise(src, still_fails, max_tests=400):
    """greedy delta debugging: drop declarations, drop statements, hoist the body of a block in place of the block,
    recurse into the blocks that remain.  still_fails(text) -> bool (True for the original)."""
    tests = [0]
    def ok(text):
        if tests[0] >= max_tests:
            return False
        tests[0] += 1
        return still_fails(text)

    def reduce_list(items, render):
        changed = True
        while changed and items:
            changed = False
            for k in range(len(items)):
                cand = items[:k] + items[k + 1:]
                if ok(render(cand)):
                    items = cand
                    changed = True
                    break
        return items

    def reduce_stmts(stmts, rebuild, depth=0):
        stmts = reduce_list(list(stmts), rebuild)
        if depth > 8:
            return stmts
        k = 0
        while k < len(stmts):
            st = stmts[k]
            hoisted = False
            for (a, b) in _brace_groups(st):
                inner = _split_body(st[a + 1:b])
                cand = stmts[:k] + inner + stmts[k + 1:]
                if inner and ok(rebuild(cand)):
                    stmts = reduce_list(cand, rebuild)
                    hoisted = True
                    break
            if hoisted:
                continue
            ng = len(_brace_groups(st))
            for gi in range(ng):
                st = stmts[k]
                groups = _brace_groups(st)
                if gi >= len(groups):
                    break
                a, b = groups[gi]
                inner = _split_body(st[a + 1:b])
                if not inner:
                    continue
                def rb(new_inner, st=st, a=a, b=b, k=k):
                    return rebuild(stmts[:k] + [st[:a + 1] + " " + " ".join(new_inner) + " " + st[b:]] + stmts[k + 1:])
                new_inner = reduce_stmts(inner, rb, depth + 1)
                stmts[k] = st[:a + 1] + " " + " ".join(new_inner) + " " + st[b:]
            k += 1
        return stmts

    chunks = _split_top(src)
    pidx = [k for k, c in enumerate(chunks) if c.startswith("parser")]
    if len(pidx) != 1:
        return src
    decls = [c for k, c in enumerate(chunks) if k != pidx[0]]
    parser = chunks[pidx[0]]
    decls = reduce_list(decls, lambda ds: " ".join(ds + [parser]))
    res = reduce_stmts([parser], lambda ps: " ".join(decls + ps))
    parser = " ".join(res)
    for k in range(len(decls)):
        if decls[k].startswith("macro"):
            def rb(new_d, k=k):
                return " ".join(decls[:k] + new_d + decls[k + 1:] + [parser])
            r_ = reduce_stmts([decls[k]], rb)
            if len(r_) == 1:
                decls[k] = r_[0]
    decls = reduce_list(decls, lambda ds: " ".join(ds + [parser]))
    return re.sub(r"\s+", " ", " ".join(decls + [parser])).strip() if False else " ".join(decls + [parser])
