"""Running the real compiler in-process on the current /repo tree (imported through PYTHONPATH)."""
import os, sys, io, glob, contextlib, traceback, signal
import nmfu
import export

CORPUS_DIRS = [os.path.join(os.environ.get("NMFU_REPO", "/repo"), "example"), os.path.join(os.environ.get("NMFU_REPO", "/repo"), "example", "test")]


class Timeout(Exception):
    pass


def _alarm(signum, frame):
    raise Timeout()


def compile_source(src, flags=(), want_c=False, name="prog", interner=None, time_limit=60, export_machines=True):
    """returns dict: verdict in {ok, diagnosed, internal, timeout}, message, machines {post_convert, post_optimize}, c, h"""
    res = {"verdict": None, "message": "", "machines": {}, "c": None, "h": None}
    I = interner or export.Interner()
    res["interner"] = I

    def observer(phase, dctx):
        if export_machines:
            res["machines"][phase] = export.Exporter(dctx, I).export()

    nmfu._verif_observer = observer
    old = signal.signal(signal.SIGALRM, _alarm)
    signal.alarm(time_limit)
    try:
        with contextlib.redirect_stdout(io.StringIO()):
            try:
                nmfu.ProgramData.load_commandline_flags(list(flags) + ["%s.nmfu" % name])
            except RuntimeError as e:
                res["verdict"], res["message"] = "diagnosed", "flags: " + str(e)
                return res
            nmfu.ProgramData.load_source(src)
            try:
                pt = nmfu.parser.parse(src, start="start")
            except nmfu.lark.LarkError as e:
                res["verdict"], res["message"] = "diagnosed", "syntax: " + str(e)[:300]
                return res
            try:
                pctx = nmfu.ParseCtx(pt)
                pctx.parse()
                dctx = nmfu.DfaCompileCtx(pctx)
                dctx.compile()
                res["dctx"] = dctx
                if want_c:
                    cctx = nmfu.CodegenCtx(dctx, name)
                    res["h"] = cctx.generate_header()
                    res["c"] = cctx.generate_source()
            except nmfu.NMFUError as e:
                try:
                    msg = str(e)
                except Exception as e2:
                    res["verdict"], res["message"] = "internal", "NMFUError whose str() raises: %r" % e2
                    res["traceback"] = traceback.format_exc()
                    return res
                res["verdict"], res["message"] = "diagnosed", msg[:500]
                return res
        res["verdict"] = "ok"
        return res
    except Timeout:
        res["verdict"], res["message"] = "timeout", "compilation exceeded %ds" % time_limit
        return res
    except RecursionError as e:
        res["verdict"], res["message"] = "internal", "RecursionError"
        return res
    except Exception as e:
        res["verdict"], res["message"] = "internal", "%s: %s" % (type(e).__name__, str(e)[:300])
        res["traceback"] = traceback.format_exc()
        return res
    finally:
        signal.alarm(0)
        signal.signal(signal.SIGALRM, old)
        nmfu._verif_observer = None


def corpus():
    """[(name, source, flags)] for example/*.nmfu and example/test/*.ok.nmfu"""
    out = []
    for d in CORPUS_DIRS:
        for p in sorted(glob.glob(os.path.join(d, "*.nmfu"))):
            if p.endswith(".fail.nmfu"):
                continue
            src = open(p).read()
            flags = []
            for line in src.splitlines()[:5]:
                if line.startswith("// args:"):
                    flags = line[len("// args:"):].split()
            out.append((os.path.basename(p).replace(".nmfu", "").replace(".ok", ""), src, flags))
    return out
