"""C01 - accepted programs behave as their procedural reading prescribes.

Translation validation against a Coq specification with a Coq-verified validator:
  * coq/Ref/Lang.v + RefSem.v : the statement language and its procedural reading (an interpreter with one symbol
    of lookahead; what the property leaves open - an action between two consumed bytes may run with either, actions
    pending when an error strikes may not have run - are explicit choices of the reading);
  * coq/Ref/Sim.v + RefCert.v : sim_cert p d = true  ->  for every data semantics and every input, the trace of the
    compiled parser (primitives in order, test outcomes, returned codes, consumed-or-not) is a trace of the reading
    (Props/C01.v, closed under the global context);
  * programs are born as generator trees (harness/gen.py); the source text handed to the compiler and the Coq term
    handed to the validator are printed from the same tree; the compiler's machine comes from the export hook.
A rejected certificate yields the path to the first step the reading does not allow; it is turned into input bytes
and replayed on the gcc-built parser.
"""
import os, json, random, collections, shutil
import common, nm, export, gen, mach, refsem, cdrv

LEVEL = "translation_validation"

A = lambda v, e: ("assign", v, e)
INC = lambda v, k=1: ("assign", v, ("bin", "+", ("var", v), ("num", k)))
LIT = lambda s: ("match", ("lit", s))

def _prog(body, ints=(), strs=(), hooks=(), ycodes=()):
    return {"outs": [{"type": "int", "name": n, "signed": None, "width": None, "default": None} for n in ints] +
                    [{"type": "str", "name": n, "size": sz, "null": nl, "default": None} for n, sz, nl in strs],
            "hooks": list(hooks), "finish_codes": [], "yield_codes": list(ycodes), "body": body}

# Known findings (genuine deviations of the unchanged compiler from the procedural reading), each pinned to one witness
# program; the generator avoids these shapes (see gen.Profile switches below) so that every OTHER deviation is reported.
WITNESSES = [
    ("reading:end-by-lookahead", _prog([LIT(b"h"), ("optional", [LIT(b"x")]), ("hook", "h1")], hooks=["h1"]), "hy",
     "the program ends behind a statement whose end is found by lookahead: on h y the reading skips the optional, calls h1 and is DONE; the parser returns FAIL and never calls h1"),
    ("reading:lost-finish-actions", _prog([LIT(b"f"), ("try", [("optional", [LIT(b"bg")]), INC("n0")], ["nomatch"], [LIT(b"x")]), LIT(b"\n")], ints=["n0"]), "f\n",
     "actions chained behind a statement that can match nothing are lost on the path where it matches nothing: on f \\n the reading sets n0 = 1, the parser leaves n0 = 0"),
    ("reading:lost-start-actions", _prog([("optional", [("try", [INC("n0", 5), LIT(b"g")], ["nomatch"], [LIT(b"x")])]), LIT(b"!"), LIT(b"\n")], ints=["n0"]), "g!\n",
     "actions at the head of a block that heads an optional body are lost: on g ! \\n the reading sets n0 = 5, the parser leaves n0 = 0"),
    ("reading:deferred-break-swallows-byte",
     _prog([("loop", None, [("case", [([("lit", b"ab")], [("if", [(("bin", ">=", ("var", "n0"), ("num", 1)), [("break", None)])], [A("n0", ("num", 1))]),
                                                             ("case", [([("lit", b"x")], []), ([("lit", b"y")], [])])])])]), LIT(b"\n")], ints=["n0"]), "abxabx\n",
     "a conditional break deferred onto the consuming transition of the statement that follows swallows that byte: on abxabx\\n the reading fails at the second x (break, then \\n expected), the parser consumes it and returns DONE"),
    ("reading:append-overflow-reoffers-byte",
     _prog([("try", [("append", "s", ("lit", b"ab")), ("appc", "s", ("num", 99)), LIT(b"x")], ["outofspace"], [LIT(b"b"), LIT(b"y")]), LIT(b"\n")], strs=[("s", 2, False)]), "aby\n",
     "an expression append that overflows right behind a consumed byte hands that byte to the outofspace handler again: on aby\\n the reading fails at y (the handler expects b), the parser matches b a second time and returns DONE"),
    ("reading:wait-restart-leaves-optional",
     _prog([("optional", [("wait", ("lit", b"9h")), LIT(b"bb")]), ("wait", ("re", ("c", 98))), LIT(b"\n")]), "9x9hbbb\n",
     "a wait at the head of an optional body that restarts falls back to the optional's own decision: on 9x9hbbb\\n the reading is DONE, the parser leaves the optional at x and returns FAIL"),
    ("reading:yield-in-trailing-if",
     _prog([("loop", None, [LIT(b"a"), ("if", [(("bin", "==", ("var", "n0"), ("num", 1)), [("yield", "Y0")])], None)])], ints=["n0"], ycodes=["Y0"]), "aa",
     "an if whose body holds a yield and which is the last statement of a loop body (or of the program) is never dispatched: the state behind the statement in front of it keeps the branches as transitions without symbols and takes its error transition (loop { \"a\"; if n0 == 1 { yield Y0; } } fed aa: the reading consumes both bytes and returns OK - or yields Y0 behind each when n0 is 1 - the parser returns FAIL at the second a, at every optimisation level)",
     ["-fyield-support"]),
]


def profile(rng, yields):
    p = gen.Profile(ifact=2, max_stmts=rng.choice([3, 4, 5]), closed_end=True, closed_blocks=True, safe_break=True, safe_appc=True,
                    strict_ints=True, plain_heads=True, loop=3, try_=3, foreach=2, case=4, optional=3, wait=2, hook=3, append=4)
    if yields:
        p.yields = True; p.w["yield_"] = 3
    return p


def convert(p, src, flags, lvl):
    """compile + name + convert; returns dict or None"""
    I = export.Interner(empty_setstr_is_delete=True)
    r = nm.compile_source(src, [lvl] + flags, interner=I, want_c=True)
    if r["verdict"] != "ok":
        return {"verdict": r["verdict"], "message": r["message"]}
    m = r["machines"]["post_optimize"]
    try:
        names = refsem.name_actions(p, [lvl] + flags, I)
        pr = refsem.Conv(p, m, I, names).prog(p["body"])
    except refsem.Unsupported as e:
        return {"verdict": "unsupported", "message": str(e)}
    # string assignments / deletes are not timing-strict: the compiler may run them early and more than once, so they are
    # erased on both sides (the relation then speaks about the strict events: hooks, appends, self-referential
    # assignments, tests, returns); with strict_ints every integer assignment is timing-strict
    drop = set(i for i, pi in enumerate(I.prim_info) if not pi.get("strict"))
    return {"verdict": "ok", "m": m, "I": I, "pr": pr, "drop": drop, "em": refsem.erase_machine(m, drop), "epr": refsem.erase_prog(pr, drop)}


def path_to(parents_text, pair):
    """parents: ' c/d<a/b@s ...' -> list of symbols from a start pair to pair"""
    par = {}
    for tok in parents_text.split():
        if "<" not in tok or "@" not in tok:
            continue
        child, rest = tok.split("<")
        parent, s = rest.split("@")
        par.setdefault(child, (parent, int(s)))
    out, cur, seen = [], pair, set()
    while cur in par and cur not in seen:
        seen.add(cur)
        cur, s = par[cur][0], par[cur][1]
        out.append(s)
    return list(reversed(out))


def parse_mismatch(line):
    """mismatch <i> <q> <s> <cfg> | <options> | <machine tree> | parents"""
    parts = line.split(" ### ")
    head = parts[0].split()
    info = {"raw": line[:600]}
    if head[1] == "start":
        info.update(kind="start", reading=parts[1] if len(parts) > 1 else "", machine=parts[2].rstrip(" #") if len(parts) > 2 else "", input=[])
        return info
    i, q, s = int(head[1]), int(head[2]), int(head[3])
    parents = parts[3] if len(parts) > 3 else ""
    parents = parents.lstrip("# ").strip()
    pre = path_to(parents, "%d/%d" % (i, q))
    info.update(kind="step", config=i, state=q, symbol=s, configuration=" ".join(head[4:]), reading=parts[1], machine=parts[2].rstrip(" #"),
                input=pre + ([s] if s < 256 else []))
    return info


def run_binary(src, flags, inp, wd):
    """what the gcc-built parser does on the replay input (start, one feed, no end())"""
    try:
        P = cdrv.prepare(src, flags, wd, sanitize=False)
        if not P["ok"]:
            return {"built": False, "why": P.get("why")}
        cmd = P["cp"].init_vals() + "\nrun 1 %d %s 0\n" % (len(inp), " ".join(map(str, inp)))
        rc, lines, err = cdrv.run_c(P["wd"], cmd)
        return {"built": True, "rc": rc, "calls": [l for l in lines if l.strip() != "--"][:6]}
    except Exception as e:
        return {"built": False, "why": repr(e)[:200]}
    finally:
        shutil.rmtree(wd, ignore_errors=True)


def coq_cert_items(cases, thm="c01_compiled_trace_is_a_reading"):
    items = []
    for k, (name, c) in enumerate(cases):
        defs = ["Definition p_%d : list stmt := %s." % (k, refsem.prog_coq(c["epr"])),
                "Definition d_%d : dfa := %s." % (k, export.coq_dfa(c["em"]))]
        items.append((name, defs, "sim_cert byte_syms p_%d d_%d" % (k, k), "(%s byte_syms p_%d d_%d)" % (thm, k, k)))
    return items


def coq_certs(dirname, items, per_file=6, thm_module="Props.C01"):
    """like mach.coq_certs but against the Ref development"""
    from concurrent.futures import ThreadPoolExecutor
    d = os.path.join(common.BUILD, dirname)
    shutil.rmtree(d, ignore_errors=True)
    os.makedirs(d, exist_ok=True)
    files = []
    for fi in range(0, len(items), per_file):
        part = items[fi:fi + per_file]
        L = [export.COQ_PRELUDE, "From NV Require Import Machine.Sem Machine.Bisim Machine.BBisim Regex.Re Ref.Lang Ref.RefSem Ref.Sim Ref.RefCert %s." % thm_module]
        for k, (name, defs, cert, inst) in enumerate(part):
            L += defs
            L.append("Example cert_%d : %s = true. Proof. vm_compute. reflexivity. Qed." % (fi + k, cert))
            L.append("Definition thm_%d := %s cert_%d." % (fi + k, inst, fi + k))
        path = os.path.join(d, "cert_%03d.v" % (fi // per_file))
        open(path, "w").write("\n".join(L) + "\n")
        files.append((path, part))
    def one(f):
        path, part = f
        rc, out = common.coqc_file(path, timeout=900)
        return [(name, rc == 0, out[-300:] if rc else "") for name, _, _, _ in part]
    with ThreadPoolExecutor(max_workers=common.NCPU) as ex:
        res = list(ex.map(one, files))
    return [x for part in res for x in part]


def validate(ctx, progs, levels, quick, builddir, thm, thm_module, ncoq):
    """compile every (program tree, source, flags) at the given levels, validate each accepted one against the reading;
    violations are reported through ctx; returns statistics"""
    verd, feats = collections.Counter(), collections.Counter()
    cases, tasks = [], []
    for i, (p, src, flags) in enumerate(progs):
        for lvl in ([levels[i % len(levels)]] if quick else levels):
            c = convert(p, src, flags, lvl)
            verd[c["verdict"]] += 1
            if c["verdict"] != "ok":
                continue
            c.update(name="gen%d%s" % (i, lvl), src=src, flags=[lvl] + flags, p=p, eof="-feof-support" in flags)
            cases.append(c)
            tasks.append(refsem.task_ref(c["epr"], c["em"], c["I"], c["eof"]))
            if lvl == levels[0] or quick:
                feats.update(gen.features(p))
    ctx.log("compiled -> %d accepted cases" % len(cases))
    results = refsem.run_refk(tasks, timeout=600)
    ctx.log("validator done")
    tbl_sizes, nviol, okc = [], 0, 0
    for c, res in zip(cases, results):
        if res.startswith("ok"):
            okc += 1
            tbl_sizes.append(int(res.split()[1]))
            continue
        nviol += 1
        if res.startswith("mismatch"):
            info = parse_mismatch(res)
            inp = info.get("input", [])
            rep = {"program": c["src"], "flags": c["flags"], "input": inp, "broken": "certificate Ref.RefCert.sim_cert (%s)" % thm,
                   "reading_allows": info.get("reading", "")[:700], "machine_does": info.get("machine", "")[:700], "where": info.get("configuration", info.get("kind")),
                   "primitives": {("p%d" % k): pi["key"] for k, pi in enumerate(c["I"].prim_info)}, "tests": {("t%d" % k): ti["key"] for k, ti in enumerate(c["I"].test_info)},
                   "binary": run_binary(c["src"], c["flags"], [b for b in inp if b < 256], os.path.join(common.BUILD, builddir, "r%d" % nviol)) if nviol <= 5 else None}
            ctx.violation("sim:%s" % c["name"], "the compiled parser takes a step the procedural reading does not allow (input %r, then symbol %s)" % (bytes(b for b in inp[:-1] if b < 256)[:40], inp[-1] if inp else "start"),
                          rep, found_input=True)
        else:
            ctx.violation("sim-checker:%s" % c["name"], "validator failed on an accepted program: " + res[:120],
                          {"program": c["src"], "flags": c["flags"], "broken": "certificate Ref.RefCert.sim_cert"}, found_input=False)
    # ---- kernel-checked certificates for a sample of small cases
    small = [c for c, res in zip(cases, results) if res.startswith("ok") and int(res.split()[1]) <= 40 and len(c["m"]["states"]) <= 40 and not c["eof"]]
    ctx.rng.shuffle(small)
    items = coq_cert_items([(c["name"], c) for c in small[:ncoq]], thm)
    cres = coq_certs(builddir, items, thm_module=thm_module)
    ctx.log("in-Coq certificates done")
    coq_ok = sum(1 for _, ok, _ in cres if ok)
    for name, ok, tail in cres:
        if not ok:
            ctx.violation("coq-cert:%s" % name, "in-Coq certificate rejected although the extracted validator accepted", {"broken": "Example cert (vm_compute)", "output": tail}, found_input=False)
    return dict(cases=cases, results=results, verd=verd, feats=feats, tbl_sizes=tbl_sizes, nviol=nviol, okc=okc, coq_ok=coq_ok)


def run(ctx):
    quick = ctx.tier == "quick"
    ctx.trusted += ["coq/Ref/Lang.v + RefSem.v: the procedural reading is a DEFINITION (my formalisation of docs/user-ref/parser.md); its readings of each construct are stated in the file header",
                    "harness/gen.py printer (tree -> nmfu source) and harness/refsem.py (tree -> Lang term; patterns -> core regular expressions; classes \\d \\w \\s as in gen.CLASSES)",
                    "names of data actions / conditions are taken from the compiler's own front end through an auxiliary program (what the expressions mean is C14's business)",
                    "harness/export.py + coq/Machine/Sem.v as the reading of the emitted C (tied to the gcc-built parsers by C06)",
                    "extraction (ExtrOcamlBasic only) of Ref.RefCert.sim_run for the volume tier; a sample is certified by the kernel (vm_compute)"]
    ctx.assumptions += ["program quantifier is sampled: generated programs over match / append / case / optional / loop+break / try / foreach / if / wait / finish / yield / hooks / assignments at -O0..-O3; inputs, data values and re-invocations are covered by theorem",
                        "string assignments and deletes (not timing-strict: the compiler may run them early and repeatedly) are erased on both sides: for them the certificate speaks about control flow only; integer assignments are generated in the timing-strict form n = [n * 0 + e]",
                        "end-of-input symbol excluded here (C17); greedy case covered by C08",
                        "six shapes on which the unchanged compiler deviates from the reading are known findings with one witness each; the generator avoids them (Profile switches closed_end, closed_blocks, safe_break, safe_appc, plain_heads) so that other deviations stay visible"]
    err = refsem.ensure_refk()
    if err:
        ctx.violation("refk-build", "the extracted validator does not build: " + err[:300], {"broken": "coq/Ref or extraction", "output": err}, found_input=False)
        return
    # ---- proofs + audit
    rc, out = common.coq_make(["Props/C01.vo"])
    props_src = open(os.path.join(common.COQ, "Props", "C01.v")).read()
    ctx.obligations = props_src.count("Print Assumptions")
    if rc != 0:
        ctx.violation("proof:Props/C01.v", "the soundness development no longer checks", {"broken": "coq/Props/C01.v", "output": out[-1500:]}, found_input=False)
        return
    rc, out = common.coqc_file(os.path.join(common.COQ, "Props", "C01.v"))
    blocks = common.parse_assumptions(out)
    ctx.discharged = sum(1 for b in blocks if b == "closed")
    if ctx.discharged != ctx.obligations:
        ctx.violation("proof:assumptions", "a C01 theorem depends on axioms: %r" % blocks, {"broken": "Print Assumptions", "output": out[-800:]}, found_input=False)
    hits = [h for h in common.coq_audit_sources() if h.startswith(("Ref/", "Props/C01"))]
    if hits:
        ctx.violation("proof:forbidden-vernacular", "forbidden vernacular: %r" % hits[:3], {"broken": "audit"}, found_input=False)

    # ---- known findings: one witness each
    known = 0
    for key, p, inp, what, *wfl in WITNESSES:
        wfl = wfl[0] if wfl else []
        src = gen.pr_prog(p)
        c = convert(p, src, wfl, "-O0")
        if c["verdict"] != "ok":
            ctx.log("witness %s: compiler says %s (%s)" % (key, c["verdict"], c.get("message", "")[:80]))
            continue
        res = refsem.run_refk([refsem.task_ref(c["epr"], c["em"], c["I"], False)], timeout=300)[0]
        if res.startswith("ok"):
            ctx.log("witness %s: the finding no longer reproduces" % key)
            continue
        known += 1
        inp_b = list(inp.encode("latin-1"))
        ctx.violation(key + ":witness", what, {"program": src, "flags": ["-O0"] + wfl, "input": inp_b, "certificate": res[:400],
                                                "binary": run_binary(src, ["-O0"] + wfl, inp_b, os.path.join(common.BUILD, "c01", "w"))}, found_input=True)

    # ---- generated programs
    nprog = 170 if quick else 1200
    levels = ["-O0", "-O3"] if quick else ["-O0", "-O1", "-O2", "-O3"]
    def progs():
        for i in range(nprog):
            r = random.Random(ctx.rng.getrandbits(48))
            yields = r.random() < 0.2
            if i % 8 == 7:
                yield gen.gen_loop_shape(r)
                continue
            p, src = gen.gen_program(r, profile(r, yields))
            yield p, src, (["-fyield-support"] if yields else [])
    st = validate(ctx, progs(), levels, quick, "c01", "c01_compiled_trace_is_a_reading", "Props.C01", 18 if quick else 90)
    ctx.coverage.update({
        "programs": len(st["cases"]), "programs_certified_extracted": st["okc"], "programs_certified_in_coq": st["coq_ok"], "disagreements_checked": st["nviol"],
        "known_finding_witnesses_reproduced": known, "compiler_verdicts": dict(st["verd"]), "levels": levels,
        "statement_kinds": dict(st["feats"]), "reading_configurations_per_program": sorted(st["tbl_sizes"])[::max(1, len(st["tbl_sizes"]) // 10)],
        "machine_states_distribution": sorted(len(c["m"]["states"]) for c in st["cases"])[::max(1, len(st["cases"]) // 10)],
        "theorems": ["Props/C01.v c01_compiled_trace_is_a_reading (= RefCert.sim_cert_sound)", "Props/C01.v c01_step (= Sim.sim_lock_sem)"],
        "checker_cmd": "ocaml/refk (extracted Ref.RefCert.sim_run) + coqc build/c01/cert_*.v",
    })
    for c, res in list(zip(st["cases"], st["results"]))[:: max(1, len(st["cases"]) // 5)][:5]:
        ctx.samples.append({"program": c["src"], "flags": c["flags"], "result": res[:60]})
