"""C02 - parsing result is independent of how input is chunked.

Proof over the model (coq/Props/C02.v: one call on c1++c2 = calls on c1 then c2, any composition of the
input, for every machine and data semantics) + correspondence: the gcc-built parser is run under many
splits of the same input (all 2^(n-1) for short inputs) and must (a) produce the same chunk-independent
observation under every split and (b) agree with the extracted model on every call of every split.
"""
import os, re, json, random, collections, shutil
from concurrent.futures import ThreadPoolExecutor
import common, nm, export, gen, mach, cdrv

LEVEL = "proof"
PROPS = "C02.v"


def proofs(ctx, props, deps=("Machine/Chunk.vo",)):
    """build the property file, audit Print Assumptions; returns True if everything is closed"""
    rc, out = common.coq_make(list(deps), timeout=900)
    path = os.path.join(common.COQ, "Props", props)
    n_thm = len(re.findall(r"^Print Assumptions", open(path).read(), re.M))
    ctx.obligations += n_thm
    if rc != 0:
        ctx.violation("proof-build", "the development under %s no longer builds" % props, {"broken": " ".join(deps), "output": out[-1500:]}, found_input=False)
        return False
    rc, out = common.coqc_file(path, timeout=600)
    blocks = common.parse_assumptions(out)
    closed = sum(1 for b in blocks if b == "closed")
    ctx.discharged += closed
    if rc != 0 or closed != n_thm:
        ctx.violation("proof:" + props, "property theorems of %s do not check or depend on axioms" % props, {"broken": "coq/Props/" + props, "output": out[-1500:]}, found_input=False)
        return False
    ctx.coverage["print_assumptions"] = "%d theorems: Closed under the global context" % closed
    return True


def program_stream(ctx, n_gen, yield_share=0.5):
    rng = ctx.rng
    progs = [(n, s, f) for n, s, f in nm.corpus() if n not in ("gtfs-realtime", "ttc_rdf", "http")]
    for i in range(n_gen):
        p = gen.Profile(max_stmts=4)
        yields = rng.random() < yield_share
        if yields:
            p.yields = True; p.w["yield_"] = 4
        ast, src = gen.gen_program(random.Random(rng.getrandbits(48)), p)
        progs.append(("gen%d" % i, src, ["-fyield-support"] if yields else []))
    for i in range(max(8, n_gen // 3)):
        ast, src = gen.gen_yield_shape(random.Random(rng.getrandbits(48)))
        progs.append(("yshape%d" % i, src, ["-fyield-support"]))
    progs += [(name, src, []) for name, src in gen.FEATURE_PROGRAMS if name != "feat-many-states"]
    return progs


def job(args):
    idx, name, src, flags, seed, quick, P0 = args
    rng = random.Random(seed)
    wd = os.path.join(common.BUILD, "c02", "p%04d" % idx)
    P = cdrv.prepare_build(P0, wd)
    res = {"name": name, "flags": flags, "src": src, "ok": P["ok"], "why": P.get("why"), "inputs": 0, "splits": 0, "viol": []}
    if not P["ok"]:
        return res
    m = P["m"]
    res["machine"] = m
    special = set(cdrv.special_bytes(P["I"]))
    cmds, meta = [P["cp"].init_vals()], []
    seen = set()
    directed = [list(x) for x in gen.FEATURE_INPUTS.get(name, [])]
    for k in range((10 if quick else 40) + len(directed)):
        inp = directed[k] if k < len(directed) else cdrv.random_input(m, rng, maxlen=rng.choice([3, 5, 6, 6, 9, 14, 30]), special=special)
        if len(inp) < 2 or tuple(inp) in seen:
            continue
        seen.add(tuple(inp))
        for lens in cdrv.all_splits(len(inp), rng, limit=24 if quick else 60):
            cmds.append("run %d %s %s %d" % (len(lens), " ".join(map(str, lens)), " ".join(map(str, inp)), 1 if P["eof"] else 0))
            meta.append((inp, lens))
    text = "\n".join(cmds) + "\n"
    rc1, cl, cerr = cdrv.run_c(wd, text, timeout=120)
    rc2, ml, merr = cdrv.run_model(P["dfa_text"], P["cfg_text"], text, timeout=300)
    shutil.rmtree(wd, ignore_errors=True)
    cb, mb = cdrv.split_blocks(cl), cdrv.split_blocks(ml)
    res["splits"] = len(meta)
    if rc1 != 0 or len(cb) != len(meta):
        res["viol"].append({"kind": "c-binary-exit", "rc": rc1, "stderr": cerr[-300:], "blocks": len(cb), "expected": len(meta),
                            "last_input": meta[min(len(cb), len(meta) - 1)] if meta else None})
        return res
    by_input = collections.OrderedDict()
    for (inp, lens), c_block, m_block in zip(meta, cb, mb + [[]] * (len(cb) - len(mb))):
        by_input.setdefault(tuple(inp), []).append((lens, c_block, m_block))
    res["inputs"] = len(by_input)
    for inp, runs in by_input.items():
        obs = [(lens, cdrv.observation(cbk, P["direct"])) for lens, cbk, _ in runs]
        ref = obs[0]
        for lens, o in obs[1:]:
            if o != ref[1]:
                res["viol"].append({"kind": "split-dependence", "input": list(inp), "split_a": ref[0], "obs_a": repr(ref[1])[:400],
                                    "split_b": lens, "obs_b": repr(o)[:400]})
                break
        for lens, cbk, mbk in runs:
            if any(x.startswith("UNDEF") for x in mbk):
                continue
            d, u = cdrv.compare(cbk, mbk, P["direct"])
            if d:
                res["viol"].append({"kind": "c-vs-model", "input": list(inp), "split": lens, "first_diff": d[0]})
                break
        if len(res["viol"]) >= 2:
            break
    return res


def run(ctx):
    err = mach.ensure_machk()
    if err:
        ctx.violation("build", "extracted tools do not build: " + err[:200], {"broken": "extraction"}, found_input=False)
        return
    proofs(ctx, PROPS)
    quick = ctx.tier == "quick"
    rng = ctx.rng
    jobs = []
    for name, src, flags in program_stream(ctx, 40 if quick else 500):
        base = [f for f in flags if not f.startswith("-O")]
        variants = [base + ["-O1", "-findirect-start-ptr"], base + [rng.choice(["-O0", "-O2", "-O3"]), rng.choice(["-findirect-start-ptr", "-fstrict-done-token-generation", "-fzero-len-input-support"])]]
        if "-fyield-support" in base:      # yields are where resumption is delicate: always also at -O3 (yield hoisted onto consuming transitions)
            variants.append(base + ["-O3"])
        if not quick:
            variants.append(base + ["-O3", "-findirect-start-ptr", "-fstrict-done-token-generation"])
            variants.append(base + ["-O1"])
        for fl in variants:
            fl = list(dict.fromkeys(fl))
            jobs.append((len(jobs), name, src, fl, rng.getrandbits(32), quick, cdrv.prepare_compile(src, fl, max_states=120)))
    with ThreadPoolExecutor(max_workers=common.NCPU) as ex:
        results = list(ex.map(job, jobs))
    good = [r for r in results if r["ok"]]
    # well-formedness certificates (hypothesis dfa_wf of the theorems) for every machine
    wf = mach.run_machk([mach.task_wf(r["machine"]) for r in good])
    for r, w in zip(good, wf):
        if w == "nowf":
            ctx.violation("nowf:%s:%s" % (r["name"], " ".join(r["flags"])), "exported machine violates dfa_wf (an action tree returns OK): the theorems do not apply",
                          {"program": r["src"], "flags": r["flags"], "broken": "certificate dfa_wf"}, found_input=False)
    nviol = 0
    for r in good:
        for v in r["viol"]:
            nviol += 1
            if v["kind"] == "split-dependence":
                ctx.violation("split:%s:%s:%s" % (r["name"], " ".join(r["flags"]), v["input"]),
                              "the gcc-built parser behaves differently under two splits of the same input: %s" % json.dumps(v)[:400],
                              {"program": r["src"], "flags": r["flags"], "input": v["input"], "split_a": v["split_a"], "split_b": v["split_b"], "obs_a": v["obs_a"], "obs_b": v["obs_b"]})
            else:
                ctx.violation("tie:%s:%s:%s" % (r["name"], " ".join(r["flags"]), v.get("kind")),
                              "gcc-built parser and model disagree on a chunked run (tie of Props/C02.v to the code broken): %s" % json.dumps(v)[:400],
                              {"program": r["src"], "flags": r["flags"], "difference": v, "broken": "correspondence C binary vs CSkel.Run under chunking"})
            break
    skipped = collections.Counter(r["why"].split(":")[0][:40] if r["why"] else "?" for r in results if not r["ok"])
    ctx.coverage.update({
        "programs_x_option_sets": len(good), "inputs": sum(r["inputs"] for r in good), "splits_run": sum(r["splits"] for r in good),
        "skipped": dict(skipped), "disagreements": nviol,
        "checker_cmd": "coqc coq/Props/C02.v (Print Assumptions) ; gcc-built parsers vs ocaml/crun under all splits",
        "rule": "inputs from random walks of the exported machine; all 2^(n-1) compositions for n<=6, else whole/all-ones/every single cut (<=12)/random; with and without yields, direct and indirect start pointer",
    })
    ctx.samples += [{"program": r["name"], "flags": r["flags"], "inputs": r["inputs"], "splits": r["splits"]} for r in good[::max(1, len(good) // 8)]][:10]
    ctx.trusted += ["gcc and the C semantics of the emitted text", "harness/export.py, harness/cdrv.py (driver, observation extraction)", "extraction (ExtrOcamlBasic) of CSkel.Run"]
    ctx.assumptions += ["the theorem is about Machine.Sem.feed; its tie to the emitted C under chunking is the sampled correspondence (state saved before actions, early advance, jpto_/fall_/repeatswitch are exercised by cut points inside every generated construct)",
                        "in direct-pointer mode the binary does not reveal consumed counts: offsets are compared only with -findirect-start-ptr"]
