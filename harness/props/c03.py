"""C03 - generated parsers are memory-safe and respect output capacities.

Proof over the concrete model (coq/Props/C03.v: capacity invariant after start and after any call
history; guarded appends are defined and stay inside the array; the full test fires exactly at the
effective size; constants executable iff they fit; the counter type chosen by the regenerated
_integer_containing holds its bound) + per-machine certificate appends_guarded + static checks of the
exported constants/defaults/declared counter types + correspondence: ASan/UBSan/LSan builds under every
string-storage option set, driven over chunked inputs incl. overflowing ones, compared with the model
and checked for the invariants after every call.
"""
import os, re, json, random, collections, shutil, itertools
from concurrent.futures import ThreadPoolExecutor
import common, nm, export, gen, mach, cdrv
from props import c02, c15

LEVEL = "proof"

STORAGE = [[], ["-fallocate-str-space-dynamic"], ["-fallocate-str-space-dynamic-on-demand"],
           ["-fallocate-str-space-dynamic-on-demand", "-fdelete-string-free-memory"], ["-fallocate-str-space-dynamic", "-fdelete-string-free-memory"]]
CTYPE_MAX = {"uint8_t": 255, "uint16_t": 65535, "uint32_t": 2**32 - 1, "uintmax_t": 2**64 - 1}


def profile(rng):
    p = gen.Profile(max_stmts=5, delete=3, assigns=3, append=7, appc=4, hook=1, assign=2, if_=2, try_=4, loop=3)
    p.big_strings = rng.random() < 0.25
    return p


def static_checks(ctx, name, src, P):
    """constants / defaults / counter types of one compiled program"""
    m, I = P["m"], P["I"]
    outs = {o["name"]: o for o in m["outs"]}
    for info in I.prim_info:
        if info["kind"] == "setstr":
            o = outs[info["var"]]
            eff = o["size"] - (1 if o["null"] else 0)
            if len(info["bytes"]) > eff:
                ctx.violation("const-too-long:%s:%s:%d>%d" % (name, info["var"], len(info["bytes"]), eff),
                              "accepted program assigns a %d-byte constant to %s whose capacity is %d (terminator excluded): memcpy overruns the buffer" % (len(info["bytes"]), info["var"], eff),
                              {"program": src, "flags": P["flags"], "var": info["var"], "bytes": info["bytes"], "capacity": eff})
    for o in m["outs"]:
        if o["type"] == "STR" and o["default"] is not None:
            eff = o["size"] - (1 if o["null"] else 0)
            if len(o["default"]) > eff:
                ctx.violation("default-too-long:%s:%s:%d>%d" % (name, o["name"], len(o["default"]), eff),
                              "accepted program gives %s (capacity %d) a %d-byte default: start() copies past the buffer and the length exceeds the capacity" % (o["name"], eff, len(o["default"])),
                              {"program": src, "flags": P["flags"], "var": o["name"], "default": o["default"], "capacity": eff})
    for o in m["outs"]:
        if o["type"] in ("STR", "RAW"):
            mm = re.search(r"(\w+)\s+%s_counter;" % re.escape(o["name"]), P["h"])
            size = o["size"] if o["type"] == "STR" else cdrv.RAW_SIZES.get(o["raw"], 8)
            if not mm or CTYPE_MAX.get(mm.group(1), -1) < size:
                ctx.violation("counter-type:%s:%s:%s<%d" % (name, o["name"], mm.group(1) if mm else "?", size),
                              "the length counter of %s (capacity %d) is declared %s which cannot hold the capacity" % (o["name"], size, mm.group(1) if mm else "?"),
                              {"program": src, "flags": P["flags"], "var": o["name"], "size": size, "declared": mm.group(0) if mm else None})
    mm = re.search(r"(\w+)\s+state;", P["h"])
    if not mm or CTYPE_MAX.get(mm.group(1), -1) < len(m["states"]):
        ctx.violation("state-type:%s" % name, "the state member is declared %s which cannot hold %d states" % (mm.group(1) if mm else "?", len(m["states"])),
                      {"program": src, "flags": P["flags"]})


def job(args):
    idx, name, src, seed, quick, P0 = args
    rng = random.Random(seed)
    wd = os.path.join(common.BUILD, "c03", "p%04d" % idx)
    P = cdrv.prepare_build(P0, wd, sanitize=True)
    res = {"name": name, "flags": P0["flags"], "src": src, "ok": P["ok"], "why": P.get("why"), "runs": 0, "calls": 0, "viol": [], "guard": None}
    if not P["ok"]:
        return res
    m = P["m"]
    special = set(cdrv.special_bytes(P["I"]))
    cmds, meta = ["guard", P["cp"].init_vals()], []
    for k in range(10 if quick else 40):
        inp = cdrv.random_input(m, rng, maxlen=rng.choice([4, 12, 40, 40, 300]), special=special)
        if name.startswith("bound_") and k < 2:
            inp = [97] * (int(name.rsplit("_", 1)[1]) + 5) + [59]
        if not inp:
            continue
        lens = rng.choice(cdrv.all_splits(len(inp), rng, limit=8))
        cmds.append("run %d %s %s %d" % (len(lens), " ".join(map(str, lens)), " ".join(map(str, inp)), 1 if P["eof"] else 0))
        meta.append((inp, lens))
    text = "\n".join(cmds) + "\n"
    rc1, cl, cerr = cdrv.run_c(wd, "\n".join(cmds[1:]) + "\n", timeout=180)
    rc2, ml, merr = cdrv.run_model(P["dfa_text"], P["cfg_text"], text, timeout=300)
    shutil.rmtree(wd, ignore_errors=True)
    res["guard"] = ml[0] if ml else "?"
    ml = ml[1:]
    res["runs"] = len(meta)
    if rc1 != 0 or "ERROR: AddressSanitizer" in cerr or "runtime error" in cerr or "LeakSanitizer" in cerr:
        kind = "leak" if "LeakSanitizer" in cerr else ("asan" if "AddressSanitizer" in cerr else ("ubsan" if "runtime error" in cerr else "crash"))
        blocks_done = len(cdrv.split_blocks(cl))
        res["viol"].append({"kind": "sanitizer-" + kind, "rc": rc1, "report": cerr[:1500], "last_input": meta[min(blocks_done, len(meta) - 1)] if meta else None})
        return res
    cb, mb = cdrv.split_blocks(cl), cdrv.split_blocks(ml)
    outs = m["outs"]
    for (inp, lens), cbk, mbk in zip(meta, cb, mb + [[]] * len(cb)):
        res["calls"] += len(cbk)
        for l in cbk:
            p = cdrv.parse_line(l)
            if p is None:
                continue
            vals = p["outs"].split(",") if p["outs"] else []
            for o, v in zip(outs, vals):
                if o["type"] == "STR":
                    n = int(v.split(":")[0])
                    eff = o["size"] - (1 if o["null"] else 0)
                    if n > eff or (o["null"] and v.endswith(":T0")):
                        res["viol"].append({"kind": "invariant", "var": o["name"], "value": v, "capacity": eff, "input": inp, "split": lens, "line": l})
                        break
            if res["viol"]:
                break
        if not res["viol"] and not any(x.startswith("UNDEF") for x in mbk):
            d, u = cdrv.compare(cbk, mbk, P["direct"])
            if d:
                res["viol"].append({"kind": "c-vs-model", "input": inp, "split": lens, "first_diff": d[0]})
        if res["viol"]:
            break
    return res


def run(ctx):
    err = mach.ensure_machk()
    if err:
        ctx.violation("build", "extracted tools do not build: " + err[:200], {"broken": "extraction"}, found_input=False)
        return
    rerr = c15.regenerate(ctx)
    if rerr:
        # search for a concrete failing input: the bytes a constant spells against the bytes the gcc-built parser stores
        nbefore = len(getattr(ctx, "violations", []))
        c15.stored_literals(ctx)
        if len(getattr(ctx, "violations", [])) == nbefore:
            ctx.violation("translator-failclosed", "translator cannot translate the current source: " + rerr, {"broken": "translator (Tie 1) for Gen/GLit.v"}, found_input=False)
    else:
        rc, out = common.coq_make(["Gen/GLit.vo", "CSkel/Safety.vo"], timeout=900)
        c02.proofs(ctx, "C03.v")
    quick = ctx.tier == "quick"
    rng = ctx.rng
    stream = [(n, s, f) for n, s, f in nm.corpus() if n not in ("gtfs-realtime", "ttc_rdf", "http") and "str" in s or "raw" in s]
    for i in range(60 if quick else 600):
        ast, src = gen.gen_program(random.Random(rng.getrandbits(48)), profile(rng))
        if "str" in src:
            stream.append(("sgen%d" % i, src, []))
    # capacity boundaries of the counter types: compile-only programs, checked statically (and run like the others)
    for size in (255, 256, 257, 65535, 65536, 65537):
        for kind in ("str", "unterminated str"):
            stream.append(("bound_%s_%d" % (kind[:5], size), "out %s[%d] s;\nparser { s += /a*/; \";\"; }\n" % (kind, size), []))
    # constants of every length around the capacity: accepted iff they fit (c03_constant_fits_iff)
    for size in (2, 4, 8):
        for kind in ("str", "unterminated str"):
            for n in (size - 2, size - 1, size, size + 1):
                if n >= 0:
                    stream.append(("const_%s_%d_%d" % (kind[:5], size, n), 'out %s[%d] s;\nout str[4] t;\nparser { "a"; s = "%s"; t += /b*/; ";"; }\n' % (kind, size, "x" * n), []))
    jobs = []
    for name, src, flags in stream:
        base = [f for f in flags if not f.startswith("-O") and not f.startswith("-fallocate") and f != "-fdelete-string-free-memory"]
        for st in (rng.sample(STORAGE, 2) if quick else STORAGE):
            fl = list(dict.fromkeys(base + st + [rng.choice(["-O1", "-O2", "-O3"])] + rng.choice([[], ["-fstrings-as-u8"], ["-findirect-start-ptr"]])))
            P0 = cdrv.prepare_compile(src, fl, max_states=150)
            if P0["ok"]:
                static_checks(ctx, name, src, P0)
                if not any(o["type"] == "STR" and o["size"] > 1000 for o in P0["m"]["outs"]):     # the unary-number model is only run on small capacities
                    jobs.append((len(jobs), name, src, rng.getrandbits(32), quick, P0))
            elif P0["verdict"] == "internal":
                pass   # C18's business
    with ThreadPoolExecutor(max_workers=common.NCPU) as ex:
        results = list(ex.map(job, jobs))
    good = [r for r in results if r["ok"]]
    nviol = 0
    for r in good:
        if r["guard"] != "guarded":
            ctx.violation("unguarded-append:%s:%s" % (r["name"], " ".join(r["flags"])), "an append in the exported machine is not behind the buffer-full test of its variable (certificate appends_guarded)",
                          {"program": r["src"], "flags": r["flags"], "broken": "certificate CSkel.Safety.appends_guarded"}, found_input=False)
        for v in r["viol"]:
            nviol += 1
            ctx.violation("%s:%s:%s:%s" % (v["kind"], r["name"], " ".join(r["flags"]), v.get("input", v.get("last_input"))),
                          "memory-safety check on the sanitizer build: %s" % json.dumps(v)[:600], {"program": r["src"], "flags": r["flags"], "detail": v})
            break
    skipped = collections.Counter((r["why"] or "?").split(":")[0][:40] for r in results if not r["ok"])
    ctx.coverage.update({
        "programs_x_storage_modes": len(good), "runs": sum(r["runs"] for r in good), "calls_checked": sum(r["calls"] for r in good),
        "certificates_appends_guarded": sum(1 for r in good if r["guard"] == "guarded"), "skipped": dict(skipped), "disagreements": nviol,
        "storage_modes": [" ".join(s) or "(in-struct)" for s in STORAGE],
        "checker_cmd": "coqc coq/Props/C03.v ; ocaml/crun guard ; gcc -fsanitize=address,undefined builds vs ocaml/crun, invariants checked after every call",
    })
    ctx.samples += [{"program": r["name"], "flags": r["flags"], "runs": r["runs"], "calls": r["calls"]} for r in good[::max(1, len(good) // 8)]][:10]
    ctx.trusted += ["gcc + ASan/UBSan/LSan as the oracle for undefined behaviour of the real binary", "harness/export.py, harness/cdrv.py", "translator/pylite2coq.py for _integer_containing", "extraction (ExtrOcamlBasic)"]
    ctx.assumptions += ["partial with respect to the real heap: malloc failure and allocator behaviour are outside the model; the model speaks about contents, lengths and capacities",
                        "intra-struct overflows are invisible to ASan: they are caught by the static constant/default/counter-type checks and by the call-by-call comparison with the model"]
