"""C04 - feed and end always return: no input makes a generated parser spin.

Translation validation with a Coq-verified certificate checker: every machine the current compiler
ACCEPTS must satisfy NoSpin.norm_ok && yield_ok, whose soundness theorems (no_spin_feed,
no_spin_step, yield_progress) quantify over every data semantics, state, symbol and data value.
"""
import os, json, random, collections
import common, nm, export, gen, mach

LEVEL = "translation_validation"

WITNESSES = [
    ("inverted-class-nested-empty-handlers", 'parser { loop { try { /[^ab]/; } catch { try { "a"; } catch { } } } }', ["-O1"], [98]),
    ("overflow-into-empty-handler", 'out str[3] s; parser { loop { try { s += /\\w/; } catch (outofspace) { } } }', ["-O1"], [48, 48, 48, 48]),
    ("break-as-first-statement", 'parser { loop { loop { break; "a"; } } }', ["-O1"], [0]),
    ("end-call-inverted-classes-in-empty-handlers", 'out int t = 0; parser { try { loop { try { /a[^;]/; } catch (nomatch) { } try { /[^aa]/; } catch (nomatch) { } if t == 3 { break; } try { /[^;;]/; } catch (nomatch) { } } } catch { } "end"; }', ["-O0", "-feof-support"], [97]),
    ("yield-on-immediate-done-transition", 'yieldcode LP, RP; parser { optional { loop { case { "(" -> { yield LP; } ")" -> { yield RP; } } } } }', ["-O3", "-fyield-support"], [40]),
]


def profile():
    return gen.Profile(loop=5, optional=3, try_=3, wait=2, case=3, foreach=2, if_=2, break_=2, finish=1, max_stmts=4)


def programs(ctx, n_gen):
    progs = [(name, src, flags) for name, src, flags in nm.corpus()]
    rng = ctx.rng
    for i in range(n_gen):
        yields = rng.random() < 0.25
        p = profile()
        if yields:
            p.yields = True; p.w["yield_"] = 3
        ast, src = gen.gen_program(random.Random(rng.getrandbits(48)), p)
        progs.append(("gen%d" % i, src, ["-fyield-support"] if yields else []))
    # near-invalid programs: loops and handlers with non-consuming paths (most must be rejected)
    for i in range(n_gen * 2):
        ast, src = gen.gen_spin_candidate(random.Random(rng.getrandbits(48)))
        progs.append(("spin%d" % i, src, []))
    # directed near-invalid programs: loops that can go round without consuming when a condition holds (the compiler must
    # reject them, or the machine it builds must carry the certificate)
    for i, (decl, body) in enumerate(DIRECTED_SPIN):
        progs.append(("dspin%d" % i, decl + "parser { " + body + " }", []))
    return progs


DIRECTED_SPIN = [
    ("out int c = 0; ", 'loop outer { loop inner { if (c == 0) { break inner; } "a"; } }'),
    ("out int u = 0; ", 'loop { loop { if u != 3 { break; } "x"; } }'),
    ("out int c = 0; ", 'loop { loop inner { if c == 0 { break inner; } elif c == 1 { "b"; } "a"; } }'),
    ("out int c = 0; ", 'loop { optional { "q"; } loop inner { if c == 0 { break inner; } "a"; } }'),
    ("out int c = 0; ", 'loop outer { try { loop inner { if c == 0 { break inner; } "a"; } } catch { } }'),
    ("out int c = 0; ", 'loop outer { loop mid { loop inner { if c == 0 { break mid; } "a"; } "b"; } }'),
    ("out int c = 0; ", 'loop { if c == 0 { c = 1; } else { "a"; } }'),
    ("out int c = 0; ", 'loop { loop inner { if c == 0 { c = 1; break inner; } "a"; } }'),
    ("", 'loop { loop inner { break inner; "a"; } }'),
    ("out int c = 0; ", 'loop { foreach { loop inner { if c == 0 { break inner; } "a"; } } do { c = [c + 1]; } }'),
]


def run(ctx):
    err = mach.ensure_machk()
    if err:
        ctx.violation("machk-build", "the extracted checker does not build: " + err[:200], {"broken": "extraction", "output": err}, found_input=False)
        return
    quick = ctx.tier == "quick"
    from props import c02 as _c02
    _c02.proofs(ctx, "C04.v", deps=("Machine/Work.vo", "Machine/CallTotal.vo", "CSkel/Run.vo"))   # property theorems: build + Print Assumptions audit
    progs = programs(ctx, 150 if quick else 3000)
    levels = ["-O0", "-O3"] if quick else ["-O0", "-O1", "-O2", "-O3"]
    machines, verdicts = [], collections.Counter()
    feats = collections.Counter()
    for name, src, flags in progs:
        for lvl in levels:
            base = [lvl] + [f for f in flags if not f.startswith("-O")]
            # spin candidates are also compiled with end(): only there is a cycle on the end-of-input symbol a call that never returns
            variants = [base] + ([base + ["-feof-support"]] if name.startswith("spin") and "-feof-support" not in base else [])
            for fl in variants:
                r = nm.compile_source(src, fl)
                verdicts[r["verdict"]] += 1
                if r["verdict"] == "ok":
                    machines.append((name, lvl, src, fl, r["machines"]["post_optimize"]))
    tasks = [mach.task_nospin(m) for _, _, _, _, m in machines]
    results = mach.run_machk(tasks)
    nviol = 0
    end_only_without_end_call = 0
    for (name, lvl, src, fl, m), res in zip(machines, results):
        if res == "ok":
            continue
        parts = res.split()
        if parts[0] == "spin" and parts[2:3] == ["256"] and "-feof-support" not in fl:
            end_only_without_end_call += 1      # no end() is generated: the cycle is not a call (the variant with end() is checked too)
            continue
        nviol += 1
        if parts[0] == "spin" and parts[1].isdigit():
            q, s = int(parts[1]), int(parts[2])
            path = mach.reach_path(m, q)
            ctx.violation("spin:%s:%s:q%d:s%d" % (name, lvl, q, s),
                          "accepted program whose machine can go round without consuming input: state %d on symbol %d" % (q, s),
                          {"program": src, "flags": fl, "state": q, "symbol": s, "input_to_reach_state": path,
                           "input": (path or []) + ([s] if s < 256 else []), "end_of_input": s == 256,
                           "broken": "certificate NoSpin.nospin_cert"}, found_input=path is not None)
        else:
            ctx.violation("nospin-checker:%s:%s" % (name, lvl), "checker failed on an accepted machine: " + res[:100],
                          {"program": src, "flags": fl, "broken": "certificate NoSpin.nospin_cert"}, found_input=False)
    # known findings: accepted programs that can spin, which the generators above do not produce (reported by a seeding
    # sub-agent as holes of the unchanged tree); one witness each, re-checked on every run, replayed on the gcc-built parser
    import cdrv, shutil
    for key, wsrc, wfl, winp in WITNESSES:
        wr = nm.compile_source(wsrc, wfl, want_c=True)
        if wr["verdict"] != "ok":
            ctx.log("witness %s: now %s" % (key, wr["verdict"])); continue
        ww = mach.run_machk([mach.task_nospin(wr["machines"]["post_optimize"])])[0]
        if ww == "ok":
            ctx.log("witness %s: the finding no longer reproduces" % key); continue
        wd = os.path.join(common.BUILD, "c04", "w")
        obs = None
        try:
            Pw = cdrv.prepare(wsrc, wfl, wd)
            if Pw["ok"]:
                rc_, lines_, err_ = cdrv.run_c(Pw["wd"], Pw["cp"].init_vals() + "\nrun 1 %d %s %d\n" % (len(winp), " ".join(map(str, winp)), 1 if "-feof-support" in wfl else 0), timeout=5)
                obs = {"exit": rc_, "note": "124 = feed did not return within 5 s", "calls": lines_[:4]}
        except Exception as e:
            obs = {"error": repr(e)[:200]}
        finally:
            shutil.rmtree(wd, ignore_errors=True)
        ctx.violation("spin:witness:" + key, "accepted program whose parser can go round without consuming input (%s)" % ww,
                      {"program": wsrc, "flags": wfl, "input": winp, "certificate": ww, "binary": obs, "broken": "certificate NoSpin.nospin_cert"}, found_input=True)
    # wall-clock guard on concrete runs: handlers that make room in the string that overflowed and retry the byte terminate
    # only because the emitted C really empties the string - under every string representation (the symbolic certificate
    # above cannot say this: it treats the outcome of the space test as free)
    from concurrent.futures import ThreadPoolExecutor
    REPR = [[], ["-fallocate-str-space-dynamic"], ["-fallocate-str-space-dynamic-on-demand"], ["-fallocate-str-space-dynamic-on-demand", "-fdelete-string-free-memory"],
            ["-fstrings-as-u8"], ["-fstrings-as-u8", "-fallocate-str-space-dynamic-on-demand", "-fdelete-string-free-memory"]]
    rjobs = []
    for i in range(6 if quick else 60):
        rsrc = gen.gen_retry_handler(random.Random(ctx.rng.getrandbits(48)))
        for rep in REPR:
            rfl = [ctx.rng.choice(["-O0", "-O1", "-O2", "-O3"])] + rep
            rjobs.append((len(rjobs), rsrc, rfl, ctx.rng.getrandbits(32), cdrv.prepare_compile(rsrc, rfl)))

    def rjob(a):
        idx, rsrc, rfl, seed, P0 = a
        r2 = random.Random(seed)
        wd = os.path.join(common.BUILD, "c04", "r%04d" % idx)
        out = {"src": rsrc, "flags": rfl, "ran": 0, "viol": None}
        try:
            P = cdrv.prepare_build(P0, wd)
            if not P["ok"]:
                out["skip"] = str(P.get("why"))[:200]; return out
            for _ in range(3):
                inp = [r2.choice(b"abcxyz019  ") for _ in range(r2.choice([12, 30, 60]))]
                rc_, lines_, err_ = cdrv.run_c(P["wd"], P["cp"].init_vals() + "\nrun 1 %d %s 0\n" % (len(inp), " ".join(map(str, inp))), timeout=5)
                out["ran"] += 1
                if rc_ == 124:
                    out["viol"] = {"input": inp, "note": "feed did not return within 5 s"}; break
        except Exception as e:
            out["skip"] = repr(e)[:200]
        finally:
            shutil.rmtree(wd, ignore_errors=True)
        return out

    with ThreadPoolExecutor(max_workers=common.NCPU) as ex:
        rres = list(ex.map(rjob, rjobs))
    for o in rres:
        if o["viol"]:
            nviol += 1
            ctx.violation("no-return:retry-handler:%s" % " ".join(o["flags"]), "feed does not return on a program whose out-of-space handler empties the string and retries the byte (flags %s)" % " ".join(o["flags"]),
                          {"program": o["src"], "flags": o["flags"], "input": o["viol"]["input"], "observation": o["viol"]["note"]}, found_input=True)
    ctx.coverage["retry_handler_runs"] = {"binaries": sum(1 for o in rres if o["ran"]), "runs": sum(o["ran"] for o in rres), "skipped": sum(1 for o in rres if o.get("skip")),
                                          "first_skip": next((o["skip"] for o in rres if o.get("skip")), None)}
    # in-Coq certificates (kernel-checked) for a sample of small machines
    small = [x for x in machines if len(x[4]["states"]) <= 40]
    ctx.rng.shuffle(small)
    ncoq = 24 if quick else 120
    items = []
    for i, (name, lvl, src, fl, m) in enumerate(small[:ncoq]):
        items.append(("%s%s" % (name, lvl), ["Definition d_%d : dfa := %s." % (i, export.coq_dfa(m))],
                      "nospin_cert d_%d" % i, None))
    cres = mach.coq_certs("c04", items, per_file=6)
    coq_ok = sum(1 for _, ok, _ in cres if ok)
    for (name, ok, tail), it in zip(cres, items):
        if ok is False:
            ctx.violation("coq-cert:%s" % name, "in-Coq no-spin certificate rejected", {"broken": "Cert nospin_cert", "output": tail}, found_input=False)
    ctx.coverage.update({
        "programs": len(machines), "disagreements_checked": nviol, "cycles_on_end_symbol_in_parsers_without_end": end_only_without_end_call,
        "programs_certified_in_coq": coq_ok, "programs_certified_extracted": len(machines),
        "compiler_verdicts": dict(verdicts), "levels": levels,
        "states_distribution": sorted(len(m["states"]) for _, _, _, _, m in machines)[::max(1, len(machines) // 12)],
        "theorems": ["NoSpin.no_spin_step", "NoSpin.no_spin_feed", "NoSpin.yield_progress", "Work.feed_work_linear", "Work.feed_work_consumed", "Work.end_work_bounded", "Work.feed_returns_with_linear_work", "CallTotal.history_returns", "CallTotal.history_work_linear", "Props/C04.v (10 theorems, Print Assumptions audited on every run)"],
        "checker_cmd": "ocaml/machk (extracted NoSpin.nospin_cert) + coqc build/c04/cert_*.v",
    })
    ctx.samples += [{"program": machines[i][0], "level": machines[i][1], "states": len(machines[i][4]["states"]), "result": results[i]} for i in range(0, len(machines), max(1, len(machines) // 6))][:8]
    ctx.samples.append({"source_of_a_generated_program": [s for n, s, f in progs if n.startswith("gen")][0]})
    ctx.trusted += ["harness/export.py (DFA objects -> exported machine; validated by the C correspondence of C06)",
                    "coq/Machine/Sem.v as the reading of the emitted C's control skeleton (tied by C06)",
                    "extraction (ExtrOcamlBasic only) + OCaml 4.13.1 for the volume tier; a sample is re-certified by the kernel"]
    ctx.assumptions += ["program quantifier is sampled (generated + corpus programs); inputs, states and data values are covered by theorem",
                        "wall-clock behaviour of the real binary is observed only in C06/C02 runs"]
