"""C05 - optimisation levels and flags never change parser behaviour.

Translation validation with Coq-verified validators: the machine compiled with every optimisation
off is compared with the machine compiled at each level / with each single flag by a bisimulation
certificate (Bisim.dfa_equiv_cert for the passes that must preserve timing exactly,
BBisim for fall-through short-circuiting, which may move an action by one position), whose soundness
theorem covers all inputs and every data semantics.
"""
import os, json, random, collections
import common, nm, export, gen, mach

LEVEL = "translation_validation"

STRICT_VARIANTS = [["-O1"], ["-O2"], ["-O0", "-fsimplify-else-conditions"], ["-O0", "-fremove-inaccesible-states"],
                   ["-O0", "-fuse-delete-for-empty-string"], ["-O2", "-fno-simplify-else-conditions"]]
SLACK_VARIANTS = [["-O3"], ["-O0", "-fshortcircuit-fallthroughs"], ["-O3", "--max-shortcircuit-fallthrough", "1"]]


def profile(rng):
    p = gen.Profile(max_stmts=5)
    p.safe_appc = True      # known finding (witness below): an overflowing expression append hoisted onto a consuming transition
    if rng.random() < 0.25:
        p.yields = True; p.w["yield_"] = 3
    return p


def path_from_parents(fields, q1, q2):
    par = {}
    for f in fields:
        a, b, c, d, s = map(int, f.split(","))
        par.setdefault((a, b), ((c, d), s))
    out, cur, seen = [], (q1, q2), set()
    while cur in par and cur not in seen:
        seen.add(cur)
        cur, s = par[cur][0], par[cur][1]
        out.append(s)
    return list(reversed(out))


def has_yield(a):
    k = a[0]
    if k == "ret":
        return a[1][0] == "yield"
    if k == "prim":
        return has_yield(a[2])
    if k == "test":
        return has_yield(a[2]) or has_yield(a[3])
    return False


def classify_slack_failure(m_eager, q1, s):
    """name the situation at the failing element (part of the violation key, so that a listed finding stays specific):
    follows the non-consuming moves the eager machine can make from q1 on symbol s"""
    seen, todo = set(), [q1]
    while todo:
        q = todo.pop()
        if q in seen or q is None or q >= len(m_eager["states"]):
            continue
        seen.add(q)
        st = m_eager["states"][q]
        trs = st.get("trans") if st["kind"] == "normal" else [t for _, t in st.get("brs", [])]
        for t in trs or []:
            if st["kind"] == "normal" and not (s in t["on"] or 257 in t["on"]):
                continue
            if t["fall"]:
                todo.append(t["tgt"])
                todo += [x for x in mach.goto_targets(t["acts"])]
                continue
            todo += [x for x in mach.goto_targets(t["acts"])]
            if has_yield(t["acts"]) and t["tgt"] is not None:
                tgt = m_eager["states"][t["tgt"]]
                ttrs = tgt.get("trans") if tgt["kind"] == "normal" else [x for _, x in tgt.get("brs", [])]
                if t["tgt"] in m_eager["acc"] and not m_eager["strict_done"] and all(x["err"] for x in (ttrs or [])):
                    return "yield-on-completing-transition"
    return "other"


def run(ctx):
    err = mach.ensure_machk()
    if err:
        ctx.violation("machk-build", "the extracted checker does not build: " + err[:200], {"broken": "extraction", "output": err}, found_input=False)
        return
    quick = ctx.tier == "quick"
    from props import c02 as _c02
    _c02.proofs(ctx, "C05.v", deps=("Machine/CallEquiv.vo",))   # property theorems: build + Print Assumptions audit
    rng = ctx.rng
    progs = [(n, s, f) for n, s, f in nm.corpus()]
    for i in range(100 if quick else 2000):
        p = profile(rng)
        ast, src = gen.gen_program(random.Random(rng.getrandbits(48)), p)
        progs.append(("gen%d" % i, src, ["-fyield-support"] if p.yields else []))
    have_slack = os.path.exists(os.path.join(common.COQ, "Machine", "BSearch.v"))
    pairs = []   # (name, variant, src, ref machine, variant machine, kind)
    verdicts = collections.Counter()
    for name, src, flags in progs:
        base = [f for f in flags if not f.startswith("-O")]
        I = export.Interner(empty_setstr_is_delete=True)
        r0 = nm.compile_source(src, ["-O0"] + base, interner=I)
        verdicts[r0["verdict"]] += 1
        if r0["verdict"] != "ok":
            continue
        m0 = r0["machines"]["post_optimize"]
        variants = [(v, "strict") for v in (STRICT_VARIANTS if not quick or name.startswith("gen") is False else STRICT_VARIANTS[:2] + [rng.choice(STRICT_VARIANTS[2:])])]
        if have_slack:
            variants += [(v, "slack") for v in (SLACK_VARIANTS if not quick else SLACK_VARIANTS[:1])]
        for v, kind in variants:
            r = nm.compile_source(src, v + base, interner=I)
            if r["verdict"] != "ok":
                ctx.violation("verdict:%s:%s" % (name, " ".join(v)), "program accepted at -O0 but %s with %s: %s" % (r["verdict"], " ".join(v), r["message"][:100]),
                              {"program": src, "flags": v + base, "verdict": r["verdict"], "message": r["message"]})
                continue
            pairs.append((name, v, src, m0, r["machines"]["post_optimize"], kind, base, I))
            # the two machines of ONE compilation (before / after the optimisation loop) localise a failure to the passes
    # parsers without an end function are never given the end-of-input symbol: their certificates cover the 256 bytes
    has_eof = lambda base: "-feof-support" in base
    tasks = [mach.task_bisim(m0, m1, has_eof(base)) if kind == "strict" else mach.task_bbisim(m1, m0, I, has_eof(base)) for (_, _, _, m0, m1, kind, base, I) in pairs]
    results = mach.run_machk(tasks)
    nbad = 0
    for (name, v, src, m0, m1, kind, base, I), res in zip(pairs, results):
        if res == "ok":
            continue
        nbad += 1
        parts = res.split()
        if parts[0] == "mismatch":
            q1, q2, s = int(parts[1]), int(parts[2]), int(parts[3])
            if kind == "strict":
                path = path_from_parents(parts[4:], q1, q2)
            else:
                par = {}
                for f in parts[5:]:
                    child, rest = f.split("<")
                    parent, sym = rest.split("@")
                    par.setdefault(child, (parent, int(sym)))
                path, cur, seen = [], parts[4], set()
                while cur in par and cur not in seen:
                    seen.add(cur)
                    cur, sy = par[cur]
                    path.append(sy)
                path.reverse()
                # in mode R the successor is reached on the same symbol: drop repeated entries caused by it is not needed for a replay hint
            cls = classify_slack_failure(m1, q1, s) if kind == "slack" else "strict"
            ctx.violation("equiv:%s:%s:%s" % (cls, " ".join(v), name),
                          "machines compiled with -O0 and with %s are not %s-bisimilar: after input %r the next symbol %d is handled differently (states %d / %d)" % (" ".join(v), kind, path, s, q1, q2),
                          {"program": src, "flags_ref": ["-O0"] + base, "flags_variant": v + base, "input": path + ([s] if s < 256 else []), "then_end_of_input": s == 256,
                           "states": [q1, q2], "broken": "certificate %s" % ("Bisim.dfa_equiv_cert" if kind == "strict" else "BBisim.dfa_slack_cert")})
        else:
            ctx.violation("equiv-check:%s:%s" % (name, " ".join(v)), "checker result %s" % res[:80],
                          {"program": src, "flags_variant": v + base, "broken": "certificate"}, found_input=False)
    # known finding, one witness re-checked on every run: at -O3 the expression append of the next loop iteration is hoisted
    # onto the transition that consumes ':'; when it overflows the handler is entered with that byte offered again
    # (root shared with the C01 finding append-overflow-reoffers-byte; at -O0..-O2 the append waits for the next byte)
    WSRC = 'out unterminated str[2] s0;\nparser {\n    try {\n        loop {\n            s0 += [1];\n            ":";\n        }\n    }\n    catch (outofspace) {\n        "af";\n    }\n}\n'
    Iw = export.Interner(empty_setstr_is_delete=True)
    w0, w3 = nm.compile_source(WSRC, ["-O0"], interner=Iw), nm.compile_source(WSRC, ["-O3"], interner=Iw)
    if w0["verdict"] == "ok" and w3["verdict"] == "ok":
        wres = mach.run_machk([mach.task_bbisim(w3["machines"]["post_optimize"], w0["machines"]["post_optimize"], Iw, False)])[0]
        if wres != "ok":
            import cdrv as _cd, shutil as _sh
            obs = {}
            for lvl in ("-O0", "-O3"):
                wd = os.path.join(common.BUILD, "c05", "w" + lvl)
                Pw = _cd.prepare(WSRC, [lvl], wd)
                if Pw["ok"]:
                    rc_, lines_, _ = _cd.run_c(Pw["wd"], Pw["cp"].init_vals() + "\nrun 4 1 1 1 1 58 58 97 102 0\n")
                    obs[lvl] = [l.split("|")[0].strip() for l in lines_ if l.strip() != "--"]
                    _sh.rmtree(wd, ignore_errors=True)
            ctx.violation("equiv:witness:append-overflow-reoffers-byte-at-O3",
                          "out unterminated str[2] s0; parser { try { loop { s0 += [1]; \":\"; } } catch (outofspace) { \"af\"; } } fed ::af returns DONE at -O0..-O2 and FAIL at -O3: the short-circuited machine runs the next iteration's append right behind the second ':' and, when it overflows, offers that ':' to the handler again",
                          {"program": WSRC, "flags_ref": ["-O0"], "flags_variant": ["-O3"], "input": [58, 58, 97, 102], "certificate": wres[:200], "binaries": obs,
                           "broken": "certificate BSearch.dfa_slack_cert_on"}, found_input=True)
        else:
            ctx.log("witness append-overflow-reoffers-byte-at-O3: the finding no longer reproduces")
    # C-level differential runs: binaries of the same program built at -O0, -O2 and -O3 under one (random) representation
    # option set must show the same hooks (with output snapshots), the same yield / finish codes and the same final outputs
    from concurrent.futures import ThreadPoolExecutor
    import cdrv, shutil, re as _re
    REPR = [[], ["-fallocate-str-space-dynamic"], ["-fallocate-str-space-dynamic-on-demand"], ["-fallocate-str-space-dynamic-on-demand", "-fdelete-string-free-memory"],
            ["-fstrings-as-u8"], ["-findirect-start-ptr"], ["-fhook-per-state"]]
    cjobs = []
    gens = [(n, s, f) for n, s, f in progs if n.startswith("gen")]
    rng.shuffle(gens)
    LEVELS = [["-O0"], ["-O2"], ["-O3"]]
    for name, src, flags in gens[:30 if quick else 300]:
        base = [f for f in flags if not f.startswith("-O")] + rng.choice(REPR)
        Ps = [cdrv.prepare_compile(src, lvl + base, max_states=120) for lvl in LEVELS]
        if all(P["ok"] for P in Ps):
            cjobs.append((len(cjobs), name, src, Ps, rng.getrandbits(32)))
    # feature programs: every single-flag variant against -O0, under the plain representation and one random one
    for name, src in gen.FEATURE_PROGRAMS:
        for base in ([], rng.choice(REPR[1:])):
            Ps = [cdrv.prepare_compile(src, list(o) + base, max_states=600) for o in gen.FEATURE_OPTION_SETS]
            if all(P["ok"] for P in Ps):
                cjobs.append((len(cjobs), name, src, Ps, rng.getrandbits(32)))

    def cjob(a):
        idx, name, src, Ps, seed = a
        r2 = random.Random(seed)
        built = [cdrv.prepare_build(P, os.path.join(common.BUILD, "c05", "p%04d_%d" % (idx, i))) for i, P in enumerate(Ps)]
        res = {"name": name, "src": src, "viol": None, "runs": 0}
        if all(P["ok"] for P in built):
            special = set(cdrv.special_bytes(built[0]["I"]))
            inputs = [cdrv.random_input(built[0]["m"], r2, maxlen=r2.choice([4, 10, 25]), special=special) for _ in range(8)] if len(Ps) == 3 else \
                     [cdrv.random_input(built[0]["m"], r2, maxlen=r2.choice([6, 25, 60, 250]), special=special, clean=(j % 2 == 1)) for j in range(40)]
            inputs = [list(x) for x in gen.FEATURE_INPUTS.get(name, [])] + [i for i in inputs if i]
            obs = []
            for P in built:
                # feature programs: every other input is fed one byte per call (the machine state then lives in the struct between bytes)
                bytewise = lambda j: len(Ps) != 3 and j % 4 == 1
                cmds = [P["cp"].init_vals()] + [("run %d %s %s 0" % (len(i), " ".join(["1"] * len(i)), " ".join(map(str, i)))) if bytewise(j) else
                                                ("run 1 %d %s 0" % (len(i), " ".join(map(str, i)))) for j, i in enumerate(inputs)]
                rc, cl, cerr = cdrv.run_c(P["wd"], "\n".join(cmds) + "\n", timeout=60)
                o = []
                for blk in cdrv.split_blocks(cl):
                    ob = cdrv.observation(blk, True)
                    hooks = _re.sub(r"@\d+\[", "@[", ob[0]) if isinstance(ob[0], str) else ob[0]
                    codes = tuple(c for c, _ in ob[1] if c not in ("DONE",)) if len(ob) > 2 else ()
                    o.append((hooks, codes, ob[2] if len(ob) > 2 else None))
                obs.append((rc, o))
            res["runs"] = len(inputs) * len(built)
            for k in range(1, len(built)):
                if obs[k][0] != obs[0][0] or len(obs[k][1]) != len(obs[0][1]):
                    res["viol"] = {"kind": "binary-exit", "flags": built[k]["flags"], "rc": obs[k][0]}
                    break
                # a build with fall-through short-circuiting (-O3, -fshortcircuit-fallthroughs) may already have performed what the
                # lazy build performs when the next byte arrives (the permitted one-byte slack): at the end of a finite input
                # its hooks and codes may run ahead by a tail, and then the final outputs are not compared
                ahead_ok = any(f in ("-O3", "-fshortcircuit-fallthroughs") for f in built[k]["flags"]) and \
                    not any(f in ("-O3", "-fshortcircuit-fallthroughs") for f in built[0]["flags"])
                def same(a, b):
                    norm = lambda o: json.dumps(o).replace(":TN", ":T1")
                    if norm(a) == norm(b):
                        return True
                    if not ahead_ok or not (isinstance(a[0], str) and isinstance(b[0], str)):
                        return False
                    ha, hb = [x for x in a[0].split(";") if x], [x for x in b[0].split(";") if x]
                    nh = lambda l: [x.replace(":TN", ":T1") for x in l]
                    extra = (len(hb) - len(ha)) + (len(b[1]) - len(a[1]))
                    return nh(hb[:len(ha)]) == nh(ha) and tuple(b[1][:len(a[1])]) == tuple(a[1]) and extra > 0
                for inp, a, b in zip(inputs, obs[0][1], obs[k][1]):
                    if not same(a, b):
                        res["viol"] = {"kind": "level-dependence", "flags_a": built[0]["flags"], "flags_b": built[k]["flags"], "input": inp, "obs_a": repr(a)[:300], "obs_b": repr(b)[:300]}
                        break
                if res["viol"]:
                    break
        for P in built:
            if P.get("wd"):
                shutil.rmtree(P["wd"], ignore_errors=True)
        return res

    with ThreadPoolExecutor(max_workers=common.NCPU) as ex:
        cres = list(ex.map(cjob, cjobs))
    for r in cres:
        if r["viol"]:
            nbad += 1
            ctx.violation("c-level:%s:%s" % (r["viol"]["kind"], r["name"]), "binaries of one program built at different -O levels behave differently: %s" % json.dumps(r["viol"])[:500],
                          {"program": r["src"], "detail": r["viol"]})
    ctx.coverage["c_level_differential_runs"] = sum(r["runs"] for r in cres)
    # kernel-checked certificates for a sample of small pairs
    small = [x for x in pairs if len(x[3]["states"]) <= 30 and x[5] == "strict"]
    rng.shuffle(small)
    items = []
    for i, (name, v, src, m0, m1, kind, base, I) in enumerate(small[:20 if quick else 100]):
        items.append(("%s %s" % (name, " ".join(v)),
                      ["Definition a_%d : dfa := %s." % (i, export.coq_dfa(m0)), "Definition b_%d : dfa := %s." % (i, export.coq_dfa(m1))],
                      "dfa_equiv_cert_on %s a_%d b_%d" % ("true" if has_eof(base) else "false", i, i),
                      "dfa_equiv_cert_on_sound %s a_%d b_%d" % ("true" if has_eof(base) else "false", i, i)))
    cres = mach.coq_certs("c05", items, per_file=5)
    for (name, ok, tail) in cres:
        if ok is False and not any(name.split(" ")[0] == p[0] and r != "ok" for p, r in zip(pairs, results)):
            ctx.violation("coq-cert:%s" % name, "in-Coq bisimulation certificate rejected", {"broken": "Cert dfa_equiv_cert", "output": tail}, found_input=False)
    ctx.coverage.update({
        "programs": len(set(p[0] for p in pairs)), "machine_pairs": len(pairs), "disagreements_checked": nbad,
        "pairs_certified_in_coq": sum(1 for _, ok, _ in cres if ok), "pairs_certified_extracted": len(pairs),
        "variants": [" ".join(v) for v in STRICT_VARIANTS] + ([" ".join(v) for v in SLACK_VARIANTS] if have_slack else ["(short-circuit variants need BBisim: not built)"]),
        "compiler_verdicts_O0": dict(verdicts),
        "theorems": ["Bisim.bisim_strict_sound_on", "Search.dfa_equiv_cert_on_sound", "BBisim.bbisim_sound", "BSearch.dfa_slack_cert_on_sound", "CallEquiv.strict_cert_histories_agree", "CallEquiv.callers_agree_up_to_slack", "CallEquiv.callers_with_end_agree_up_to_slack", "Props/C05.v (5 theorems, Print Assumptions audited on every run)"],
        "checker_cmd": "ocaml/machk bisim (extracted) + coqc build/c05/cert_*.v",
    })
    ctx.samples += [{"program": p[0], "variant": " ".join(p[1]), "states": [len(p[3]["states"]), len(p[4]["states"])], "result": r[:40]} for p, r in list(zip(pairs, results))[::max(1, len(pairs) // 8)]][:10]
    ctx.trusted += ["harness/export.py incl. the identification of `s = \"\"` with `delete s` across -fuse-delete-for-empty-string",
                    "coq/Machine/Sem.v as the reading of the emitted C (tied by C06)", "extraction (ExtrOcamlBasic) for the volume tier"]
    ctx.assumptions += ["program quantifier sampled; inputs and data covered by Bisim.bisim_strict_sound",
                        "collapse-transition-ranges only changes how byte membership is tested in C: covered by C06's exhaustive single-step sweep"]
