"""C06 - emitted C executes exactly the compiled state machine.

The property is a statement about the tie between the generated text and the machine; it is decided
by a correspondence: the gcc-built parser is driven in forced-state single-step mode over EVERY state
index x EVERY symbol (0..255 and end-of-input) x several data contexts, and compared line by line
with the extracted Coq model (CSkel.Run over Machine.Sem) run on the machine exported from the same
compilation; plus multi-byte runs.  The Coq side contributes the executable model itself and the
lemmas relating it to the generic semantics (ceval_tree_eval, cfeed_go_feed_go, store_inv_prim).
"""
import os, json, random, collections, shutil
from concurrent.futures import ThreadPoolExecutor
import common, nm, export, gen, mach, cdrv

LEVEL = "model_checking"

OPTION_POOL = [[], ["-findirect-start-ptr"], ["-fstrict-done-token-generation"], ["-O2"], ["-O2", "--collapsed-range-length", "1"],
               ["-O2", "--collapsed-range-length", "2"], ["-O3"], ["-O0"], ["-fstrings-as-u8"], ["-fallocate-str-space-dynamic"],
               ["-fallocate-str-space-dynamic-on-demand"], ["-fhook-per-state"], ["-feof-support"], ["-fzero-len-input-support"],
               ["-findirect-start-ptr", "-fstrict-done-token-generation", "-O3"], ["-fuse-packed-enums"], ["-finclude-user-ptr"]]


def option_sets(rng, base, k):
    sets = [list(base) + ["-O1"]]
    while len(sets) < k:
        n = rng.choice([1, 1, 2, 3])
        s = list(base)
        for o in rng.sample(OPTION_POOL, n):
            for f in o:
                if f not in s:
                    s.append(f)
        if not any(f.startswith("-O") for f in s):
            s.append("-O1")
        sets.append(s)
    return sets


def check_program(args):
    """compile, build, sweep; returns a result dict (runs in a worker thread; compile is done by caller)"""
    (idx, name, src, flags, seed, quick, c_src, h_src, m, cfg_text, init_lines, lits) = args
    rng = random.Random(seed)
    wd = os.path.join(common.BUILD, "c06", "p%04d" % idx)
    shutil.rmtree(wd, ignore_errors=True)
    res = {"name": name, "flags": flags, "steps": 0, "diffs": [], "undef": 0, "build": "ok", "runs": 0}
    drv = cdrv.driver_source("prog", m, flags)
    rc, out = cdrv.build(wd, "prog", c_src, h_src, drv)
    if rc != 0:
        res["build"] = out[-600:]
        shutil.rmtree(wd, ignore_errors=True)
        return res
    eof = "-feof-support" in flags
    direct = not ("-findirect-start-ptr" in flags or "-fyield-support" in flags)
    cmds, meta = [], []
    nstates = len(m["states"])
    syms = list(range(256)) + ([256] if eof else [])
    for ci, init in enumerate(init_lines):
        cmds.append(init)
        for q in range(nstates):
            for s in syms:
                cmds.append("step %d %d" % (q, s))
                meta.append(("step", ci, q, s))
    # two-byte chunks from every state: first byte a representative of each transition of the state, second byte a
    # representative of every byte class of the machine (catches wrong jumps between bytes of one chunk)
    reps = set()
    for st in m["states"]:
        for t in st.get("trans", []):
            bs = [b for b in t["on"] if b < 256]
            if bs:
                reps.add(bs[0]); reps.add(bs[-1])
    reps = sorted(reps)[:24] + [0, 255]
    special = sorted(set(lits))          # bytes mentioned in conditions / expressions ($last == 'f')
    nstep1 = len(meta)
    for ci, init in enumerate(init_lines):
        cmds.append(init)
        for q in range(nstates):
            st = m["states"][q]
            firsts = set()
            for t in st.get("trans", []):
                bs = [b for b in t["on"] if b < 256]
                if bs:
                    firsts.add(bs[0])
                elif 257 in t["on"]:
                    firsts.add(ord("z"))
            for t in st.get("trans", []):
                for b in special:
                    if b in t["on"] or (257 in t["on"] and not any(b in t2["on"] for t2 in st["trans"])):
                        firsts.add(b)
            for b1 in sorted(firsts)[:12]:
                for b2 in reps + special[:6]:
                    cmds.append("stepn %d 2 %d %d" % (q, b1, b2))
                    meta.append(("stepn", ci, q, (b1, b2)))
    nruns = 6 if quick else 30
    directed = [list(x) for x in gen.FEATURE_INPUTS.get(name, [])]
    for r in range(nruns + len(directed)):
        inp = directed[r] if r < len(directed) else cdrv.random_input(m, rng, maxlen=rng.choice([4, 10, 30]))
        if not inp:
            continue
        cuts = sorted(set(rng.randrange(1, len(inp)) for _ in range(rng.choice([0, 1, 3])))) if len(inp) > 1 else []
        lens = [b - a for a, b in zip([0] + cuts, cuts + [len(inp)])]
        cmds.append(init_lines[0])
        cmds.append("run %d %s %s %d" % (len(lens), " ".join(map(str, lens)), " ".join(map(str, inp)), 1 if eof else 0))
        meta.append(("run", inp, lens))
        res["runs"] += 1
    text = "\n".join(cmds) + "\n"
    rc1, cl, cerr = cdrv.run_c(wd, text, timeout=120 + len(cmds) // 1000)
    rc2, ml, merr = cdrv.run_model(export.text_dfa(m), cfg_text, text, timeout=300 + len(cmds) // 500)
    shutil.rmtree(wd, ignore_errors=True)
    if rc2 != 0:
        res["build"] = "model runner failed: " + merr[-300:]
        return res
    nstep = len([x for x in meta if x[0] in ("step", "stepn")])
    res["steps"] = nstep
    if rc1 == 124 and any(l.startswith("UNDEF SPIN") for l in ml[max(0, len(cl) - 5):len(cl) + 3000]):
        cl = cl[:-1]      # (the output of the killed binary ends in the middle of a line, and what it had buffered is lost)
        # the binary does not return from a step in which the model of the machine runs out of fuel as well: the machine itself
        # goes round without consuming (a forced state / data context reaching a known C04 shape); C and machine agree
        res["spin_agreed"] = {"at_line": len(cl)}
        ml = ml[:len(cl)]
    elif rc1 != 0:
        res["diffs"].append({"kind": "c-binary-exit", "rc": rc1, "stderr": cerr[-400:], "lines": len(cl)})
    # single steps: one line each; runs: variable number of lines -> compare steps positionally, runs as blocks
    c_steps, m_steps = cl[:nstep], ml[:nstep]
    d, u = cdrv.compare(c_steps, m_steps, direct)
    res["undef"] = u
    for (i, c, mm) in d[:5]:
        kind, ci, q, s = meta[i]
        res["diffs"].append({"kind": "step", "context": ci, "state": q, "symbol": s, "c": c, "model": mm, "init": init_lines[ci]})
    res["ndiff_steps"] = len(d)
    c_runs, m_runs = cl[nstep:], ml[nstep:]
    d2, u2 = cdrv.compare(c_runs, m_runs, direct)
    if d2 and not any(x.startswith("UNDEF") for x in m_runs):
        res["diffs"].append({"kind": "run", "first_diff": d2[0], "runs": [x[1:] for x in meta if x[0] == "run"][:3]})
    return res


def run(ctx):
    err = mach.ensure_machk()
    if err or not os.path.exists(cdrv.CRUN):
        ctx.violation("crun-build", "the extracted model runner does not build: " + str(err)[:200], {"broken": "extraction"}, found_input=False)
        return
    quick = ctx.tier == "quick"
    from props import c02 as _c02
    _c02.proofs(ctx, "C06.v", deps=("Machine/Select.vo", "Machine/Eof.vo", "CSkel/Run.vo"))   # property theorems: build + Print Assumptions audit
    rng = ctx.rng
    progs = [(n, s, f) for n, s, f in nm.corpus() if quick is False or n not in ("gtfs-realtime", "ttc_rdf", "http")]
    for i in range(40 if quick else 600):
        p = gen.Profile(max_stmts=4)
        yields = rng.random() < 0.2
        if yields:
            p.yields = True; p.w["yield_"] = 3
        ast, src = gen.gen_program(random.Random(rng.getrandbits(48)), p)
        progs.append(("gen%d" % i, src, ["-fyield-support"] if yields else []))
    jobs, skipped = [], collections.Counter()
    # feature programs (gen.FEATURE_PROGRAMS): code-generation paths random generation reaches rarely, each under every
    # option set of gen.FEATURE_OPTION_SETS (the unsimplified else transitions of -O0, empty literals kept as assignments, ...)
    plan = [(name, src, option_sets(rng, [f for f in flags if not f.startswith("-O")], 2 if quick else 5)) for name, src, flags in progs]
    plan += [(name, src, [list(o) for o in gen.FEATURE_OPTION_SETS]) for name, src in gen.FEATURE_PROGRAMS]
    for name, src, osets in plan:
        for fl in osets:
            I = export.Interner()
            r = nm.compile_source(src, fl, want_c=True, name="prog", interner=I)
            if r["verdict"] != "ok":
                skipped[r["verdict"]] += 1
                continue
            m = r["machines"]["post_optimize"]
            if len(m["states"]) > (60 if quick else 250):
                skipped["too-large-for-tier"] += 1
                continue
            cp = cdrv.CfgPrinter(m, I, fl)
            try:
                cfg_text = cp.text()
                inits = [cp.init_vals(overrides=c) for c in cdrv.contexts(cp, rng, 1 if quick else 3)]
            except Exception as e:
                skipped["cfg-unsupported:" + type(e).__name__] += 1
                continue
            lits = set()
            def collect(k):
                if isinstance(k, tuple):
                    if len(k) == 2 and k[0] == "lit" and 0 <= k[1] < 256:
                        lits.add(k[1])
                    for x in k:
                        collect(x)
            for info in I.test_info + I.prim_info:
                collect(info.get("expr"))
            jobs.append((len(jobs), name, src, fl, rng.getrandbits(32), quick, r["c"], r["h"], m, cfg_text, inits, sorted(lits)))
    with ThreadPoolExecutor(max_workers=common.NCPU) as ex:
        results = list(ex.map(check_program, jobs))
    total_steps = sum(r["steps"] for r in results)
    total_states = sum(len(j[8]["states"]) for j in jobs)
    build_fail = [r for r in results if r["build"] != "ok"]
    nviol = 0
    for r, j in zip(results, jobs):
        for dd in r["diffs"]:
            nviol += 1
            key = "c-vs-model:%s:%s:%s" % (r["name"], " ".join(r["flags"]), dd.get("kind"))
            ctx.violation(key, "the gcc-built parser and the model of the exported machine disagree (%s)" % json.dumps(dd)[:300],
                          {"program": j[2], "flags": r["flags"], "difference": dd, "broken": "correspondence C binary vs CSkel.Run"})
            break
    ctx.coverage.update({
        "states": total_states, "transitions": total_steps, "traces_validated_against_impl": total_steps + sum(r["runs"] for r in results),
        "programs_x_option_sets": len(jobs), "single_steps_compared": total_steps, "multi_byte_runs": sum(r["runs"] for r in results),
        "model_undefined_steps_skipped": sum(r["undef"] for r in results),
        "binaries_not_returning_where_the_machine_spins": sum(1 for r in results if r.get("spin_agreed")),
        "c_build_failures_skipped": len(build_fail), "first_build_failure": (build_fail[0]["build"][-300:] if build_fail else None),
        "not_compiled": dict(skipped), "exhaustive": False,
        "rule": "per program x option set: every state index x every byte 0..255 (and end-of-input with -feof-support) x data contexts (zeros, full buffers/boundary ints, random), forced-state single step in the gcc-built binary vs extracted CSkel.Run; plus random multi-byte chunked runs",
    })
    ctx.samples += [{"program": r["name"], "flags": r["flags"], "steps": r["steps"], "runs": r["runs"], "differences": len(r["diffs"])} for r in results[::max(1, len(results) // 8)]][:10]
    ctx.trusted += ["gcc 12 and the C semantics of the emitted text", "harness/export.py + harness/cdrv.py (exporter, cfg printer mirroring _generate_code_for_int_expr's tree, generated driver)",
                    "extraction (ExtrOcamlBasic) of CSkel.Run; ocaml/crun.ml glue (number conversion, printing)"]
    ctx.assumptions += ["struct zeroed by the driver before start(); heap buffers start indeterminate (reads of indeterminate cells make the model answer UNDEF and are skipped)",
                        "programs whose C does not build are skipped here and reported by C11"]
