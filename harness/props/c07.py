"""C07 - a compiled regular expression accepts exactly its language.

Translation validation with a Coq-verified certificate checker (DESIGN.md section 5, C07):

  * surface regexes of the dialect are generated (every AST up to a size bound over a small alphabet,
    random larger ones with classes / ranges / repeats / high bytes, text form and binary form, plus a
    list of directed corner cases) and printed to nmfu source `parser { /re/; }` / `parser { b/re/; }`;
  * the REAL compiler of the current tree compiles each program; the machines it builds (after
    conversion = -O0 semantics, after optimisation at -O3, and after optimisation under a second flag
    set incl. -fstrict-done-token-generation) are exported;
  * an untrusted product search (harness/regexgen.py, an independent derivative engine over all 256 bytes
    and end-of-input) produces either a relation R between derivative terms and machine states, or a
    shortest input on which machine and language disagree;
  * R is validated by Regex/ReCheck.re_dfa_check, whose soundness theorems (coq/Props/C07.v) give, for
    ALL byte strings: accepted <=> in the language of the surface expression, FAIL exactly at the first
    byte after which no member of the language is reachable, end-of-input never matched.  A sample is
    validated inside Coq (Example ... vm_compute. reflexivity. Qed.), everything is validated by the
    same checker extracted to OCaml.
"""
import os, re, json, shutil, subprocess, collections, time, multiprocessing, random, tempfile
from concurrent.futures import ThreadPoolExecutor
import common
from common import COQ, BUILD, VERIF, sh
import regexgen as G

LEVEL = "translation_validation"
DIR = os.path.join(BUILD, "c07")
THEOREMS = ["c07_language", "c07_run", "c07_mismatch_is_first_dead_byte", "c07_first_dead_byte_is_reported",
            "c07_end_of_input_not_matched", "c07_desugar", "c07_deriv", "c07_nullable", "c07_void"]

# ---------------------------------------------------------------------------
# the extracted checker
# ---------------------------------------------------------------------------
EXTRACT_V = """From Coq Require Import NArith List Bool.
From Coq Require Extraction ExtrOcamlBasic.
From NV Require Import Machine.Dfa Machine.Sem Regex.Re Regex.Surface Regex.ReCheck.
Extraction Language OCaml.
Extraction "recheck.ml" re_dfa_check desugar.
"""

DRIVER_ML = r"""(* untrusted driver: parses one case per line and runs the extracted, verified checker *)
open Recheck

let rec nat_of_int i = if i <= 0 then O else S (nat_of_int (i - 1))

let pos_of_bits (bits : bool list) : n =
  (* bits: least significant first *)
  let rec strip l = match l with [] -> [] | b :: r -> let r' = strip r in if r' = [] && not b then [] else b :: r' in
  let rec build l = match l with
    | [] -> assert false
    | [true] -> XH
    | b :: r -> if b then XI (build r) else XO (build r) in
  match strip bits with [] -> N0 | l -> Npos (build l)

let n_of_int i =
  let rec bits i = if i = 0 then [] else (i land 1 = 1) :: bits (i lsr 1) in
  pos_of_bits (bits i)

let n_of_hex (s : string) : n =
  let len = String.length s in
  let all = ref [] in
  for i = 0 to len - 1 do
    let c = s.[i] in
    let v = if c >= '0' && c <= '9' then Char.code c - 48 else if c >= 'a' && c <= 'f' then Char.code c - 87 else failwith "hex" in
    all := [v land 1 = 1; v land 2 = 2; v land 4 = 4; v land 8 = 8] @ !all
  done;
  pos_of_bits !all

let toks = ref [||]
let pos = ref 0
let next () = let t = !toks.(!pos) in incr pos; t
let next_int () = int_of_string (next ())

let cclass_of i = match i with
  | 0 -> CWord | 1 -> CNotWord | 2 -> CDigit | 3 -> CNotDigit | 4 -> CSpace | 5 -> CNotSpace
  | 6 -> CNewline | 7 -> CTab | 8 -> CReturn | 9 -> CBlank | _ -> failwith "class"

let rec list_n k f = if k = 0 then [] else let x = f () in x :: list_n (k - 1) f

let p_item () = match next () with
  | "i" -> IChr (n_of_int (next_int ()))
  | "j" -> let lo = next_int () in let hi = next_int () in IRange (n_of_int lo, n_of_int hi)
  | "l" -> ICls (cclass_of (next_int ()))
  | _ -> failwith "item"

let rec p_surface () = match next () with
  | "c" -> SChr (n_of_int (next_int ()))
  | "k" -> SCls (cclass_of (next_int ()))
  | "s" -> let k = next_int () in SSet (list_n k p_item)
  | "n" -> let k = next_int () in SNSet (list_n k p_item)
  | "a" -> SAny
  | "g" -> SGrp (p_surface ())
  | "q" -> let a = p_surface () in let b = p_surface () in SSeq (a, b)
  | "o" -> let a = p_surface () in let b = p_surface () in SAlt (a, b)
  | "?" -> SOpt (p_surface ())
  | "*" -> SStar (p_surface ())
  | "+" -> SPlus (p_surface ())
  | "r" -> let k = next_int () in SRep (nat_of_int k, p_surface ())
  | "R" -> let k = next_int () in let m = next_int () in SRepRange (nat_of_int k, nat_of_int m, p_surface ())
  | "L" -> let k = next_int () in SRepAtLeast (nat_of_int k, p_surface ())
  | t -> failwith ("surface " ^ t)

let rec p_re () = match next () with
  | "E" -> Eps | "V" -> Void
  | "C" -> Cls (n_of_hex (next ()))
  | "S" -> let a = p_re () in let b = p_re () in Seq (a, b)
  | "A" -> let a = p_re () in let b = p_re () in Alt (a, b)
  | "K" -> Star (p_re ())
  | t -> failwith ("re " ^ t)

let rec p_atree () = match next () with
  | "e" -> AEnd
  | "p" -> let k = next_int () in APrim (n_of_int k, p_atree ())
  | "t" -> let k = next_int () in let a = p_atree () in let b = p_atree () in ATest (n_of_int k, a, b)
  | "rd" -> ARet RDone
  | "rf" -> ARet (RFinish (n_of_int (next_int ())))
  | "ry" -> ARet (RYield (n_of_int (next_int ())))
  | "g" -> AGoto (nat_of_int (next_int ()))
  | "b" -> ABreak (nat_of_int (next_int ()))
  | t -> failwith ("atree " ^ t)

let p_bool () = next_int () <> 0

let p_trans () =
  let on = n_of_hex (next ()) in
  let tgt = next_int () in
  let fall = p_bool () in let err = p_bool () in let early = p_bool () in
  let acts = p_atree () in
  { t_on = on; t_tgt = (if tgt < 0 then None else Some (nat_of_int tgt)); t_fall = fall; t_err = err; t_early = early; t_acts = acts }

let p_state () = match next () with
  | "F" -> SFail
  | "N" -> let k = next_int () in SNormal (list_n k p_trans)
  | t -> failwith ("state " ^ t)

let p_dfa () =
  let k = next_int () in
  let states = list_n k p_state in
  let start = next_int () in
  let na = next_int () in
  let acc = list_n na (fun () -> nat_of_int (next_int ())) in
  let strict = p_bool () in let ec = p_bool () in
  let sa = p_atree () in
  { d_states = states; d_start = nat_of_int start; d_acc = acc; d_start_acts = sa; d_strict_done = strict; d_end_check = ec }

let p_rel () =
  let k = next_int () in
  list_n k (fun () -> let r = p_re () in let q = next_int () in (r, nat_of_int q))

let () =
  try
    while true do
      let line = input_line stdin in
      let id, rest = match String.index_opt line ' ' with
        | Some i -> String.sub line 0 i, String.sub line (i + 1) (String.length line - i - 1)
        | None -> line, "" in
      (try
        toks := Array.of_list (List.filter (fun s -> s <> "") (String.split_on_char ' ' rest));
        pos := 0;
        let s = p_surface () in
        let d = p_dfa () in
        let r = p_rel () in
        if !pos <> Array.length !toks then failwith "trailing tokens";
        let ok = re_dfa_check (desugar s) d r in
        Printf.printf "%s %s\n" id (if ok then "true" else "false")
      with e -> Printf.printf "%s error %s\n" id (Printexc.to_string e));
      flush stdout
    done
  with End_of_file -> ()
"""

RECHK = os.path.join(DIR, "rechk")


def build_extracted():
    """extract Regex/ReCheck.re_dfa_check + Surface.desugar and build build/c07/rechk"""
    os.makedirs(DIR, exist_ok=True)
    common.write_if_changed(os.path.join(DIR, "extract.v"), EXTRACT_V)
    common.write_if_changed(os.path.join(DIR, "rechk_driver.ml"), DRIVER_ML)
    rc, out = sh(["coqc", "-Q", COQ, "NV", "extract.v"], cwd=DIR, timeout=600)
    if rc != 0:
        return "extraction failed: " + out[-1500:]
    rc, out = sh("ocamlfind ocamlopt -O3 recheck.mli recheck.ml rechk_driver.ml -o rechk", cwd=DIR, timeout=600)
    if rc != 0:
        return "ocaml build failed: " + out[-1500:]
    return None


def run_extracted(lines):
    """lines: list of 'id tokens...' -> dict id -> 'true' | 'false' | 'error ...'"""
    if not lines:
        return {}
    n = min(common.NCPU, max(1, len(lines) // 20))
    parts = [lines[i::n] for i in range(n)]

    def one(part):
        p = subprocess.run(["bash", "-c", "ulimit -s unlimited 2>/dev/null; exec " + RECHK], input="\n".join(part) + "\n",
                           capture_output=True, text=True, timeout=7200)
        res = {}
        for l in p.stdout.splitlines():
            k, _, v = l.partition(" ")
            res[k] = v
        for l in part:
            k = l.split(" ", 1)[0]
            res.setdefault(k, "error crashed: " + p.stderr[-200:].replace("\n", " "))
        return res

    out = {}
    with ThreadPoolExecutor(max_workers=n) as ex:
        for r in ex.map(one, parts):
            out.update(r)
    return out


# ---------------------------------------------------------------------------
# the cases
# ---------------------------------------------------------------------------
def C(ch): return ("chr", ord(ch))


def directed():
    """corner cases of the dialect, always included: (surface, binary)"""
    a, b, c = C("a"), C("b"), C("c")
    S = lambda *xs: xs[0] if len(xs) == 1 else ("seq", xs[0], S(*xs[1:]))
    A = lambda *xs: xs[0] if len(xs) == 1 else ("alt", xs[0], A(*xs[1:]))
    rng_ = lambda lo, hi: ("r", lo, hi)
    out = [
        (S(a, ("star", b)), False), (S(("star", ("grp", A(a, b))), a, b, b), False),
        (("opt", a), False), (("rep", 0, a), False), (S(("rep", 0, a), b), False), (("range", 0, 0, a), False),
        (("atleast", 0, a), False), (S(C("x"), ("atleast", 0, a), C("y")), False), (S(("atleast", 0, ("grp", S(a, b))), c), False),
        (S(("atleast", 0, ("set", (rng_(48, 57),))), C("."), ("atleast", 1, ("set", (rng_(48, 57),)))), False),
        (("atleast", 3, a), False), (("range", 2, 4, ("grp", A(a, S(b, c)))), False), (("rep", 3, ("any",)), False),
        (("range", 1, 3, ("any",)), False), (S(("star", ("any",)), a), False), (S(a, ("star", ("any",)), b), False),
        (S(C("x"), ("set", (("k", "D"), ("k", "S"))), C("y")), False), (S(C("x"), ("set", (("k", "W"), ("k", "D"))), C("y")), False),
        (("plus", ("set", (("c", 97), ("k", "S"), ("k", "D")))), False), (("nset", (("k", "D"), ("k", "S"))), False),
        (("set", (("k", "w"), ("k", "W"))), False), (S(("nset", (("k", "s"),)), ("nset", (("k", "d"), ("c", 97)))), False),
        (S(("cls", "w"), ("cls", "W"), ("cls", "d"), ("cls", "D"), ("cls", "s"), ("cls", "S")), False),
        (S(("cls", "n"), ("cls", "t"), ("cls", "r"), ("chr", 32)), False),
        (S(C("."), C("*"), C("("), C(")"), C("["), C("]"), C("\\"), C("+"), C("{"), C("}"), C("|"), C("/")), False),
        (("set", (("c", ord("-")), ("c", ord("]")), ("c", ord("\\")), ("c", ord("/")), ("c", ord("?")), ("c", ord("[")))), False),
        (A(S(("nset", (("c", 97),)), b), S(("nset", (("c", 98),)), c)), False),
        (A(S(("any",), a), S(("cls", "D"), b), S(("cls", "W"), c)), False),
        (S(("chr", 0xe9), ("set", (rng_(0xf0, 0xff),))), False),
        (A(S(("chr", 0), ("plus", ("set", (rng_(0x80, 0xff),)))), ("grp", S(("chr", 0x44), ("opt", ("chr", 0x56)), ("chr", 0x12)))), True),
        (S(("star", ("any",)), ("chr", 0xff), ("chr", 0)), True),
        (("nset", (rng_(0, 0x7f),)), True), (S(("nset", (rng_(0x10, 0xef),)), ("set", (("c", 0), ("c", 0xff)))), True),
        # two inverted classes that together exclude every byte (TODO at nmfu.py "handle multiple of these")
        (A(S(("nset", (rng_(0, 0x7f),)), ("chr", 1)), S(("nset", (rng_(0x80, 0xff),)), ("chr", 2))), True),
        # a sub-expression with an empty byte class
        (S(a, ("nset", (("k", "w"), ("k", "W"))), b), False), (S(("chr", 0x61), ("nset", (rng_(0, 0xff),))), True),
        (A(S(a, ("nset", (("k", "w"), ("k", "W")))), b), False),
    ]
    return out


def sample(rng, xs, k):
    xs = list(xs)
    if len(xs) <= k:
        return xs
    return rng.sample(xs, k)


def make_cases(ctx):
    """list of (origin, surface, binary)"""
    rng = ctx.rng
    quick = ctx.tier == "quick"
    cases = [("directed", s, b) for s, b in directed()]
    ta, ba = G.small_atoms(False), G.small_atoms(True)
    for size in (1, 2):
        cases += [("enum%d" % size, s, False) for s in G.enumerate_small(size, ta)]
    if quick:
        cases += [("enum3", s, False) for s in sample(rng, G.enumerate_small(3, ta), 60)]
        cases += [("enum4", s, False) for s in sample(rng, G.enumerate_small(4, ta), 30)]
        cases += [("enum5", s, False) for s in sample(rng, G.enumerate_small(5, ta), 10)]
        cases += [("enum-bin", s, True) for s in sample(rng, G.enumerate_small(2, ba) + G.enumerate_small(3, ba), 20)]
        nrand = 75
    else:
        cases += [("enum3", s, False) for s in G.enumerate_small(3, ta)]
        cases += [("enum4", s, False) for s in G.enumerate_small(4, ta)]
        cases += [("enum5", s, False) for s in sample(rng, G.enumerate_small(5, ta), 6000)]
        for size in (1, 2, 3):
            cases += [("enum-bin", s, True) for s in G.enumerate_small(size, ba)]
        cases += [("enum-bin", s, True) for s in sample(rng, G.enumerate_small(4, ba), 2000)]
        nrand = 6000
    for i in range(nrand):
        binary = i % 5 in (1, 3)
        cases.append(("random", G.rand_regex(rng, binary, rng.choice([2, 3, 3, 4, 4])), binary))
    return cases


SECOND_FLAGS = [["-O2"], ["-O1", "-fstrict-done-token-generation"], ["-O2", "-fstrict-done-token-generation"], ["-O0", "-feof-support"],
                ["-O3", "-fstrict-done-token-generation"], ["-O1"]]


def void_ignoring_classes(r):
    """emptiness that treats every byte class as inhabited (diagnosis only)"""
    t = r.tag
    if t == G.T_VOID: return True
    if t in (G.T_EPS, G.T_CLS, G.T_STAR): return False
    if t == G.T_SEQ: return void_ignoring_classes(r.a) or void_ignoring_classes(r.b)
    return void_ignoring_classes(r.a) and void_ignoring_classes(r.b)


def nmfu_classes(s, acc):
    """(inverted, byte set of the stored characters) of every character class the way nmfu represents them (diagnosis only)"""
    t = s[0]
    if t == "chr": acc.add((False, 1 << s[1]))
    elif t == "cls": acc.add((True, G.CLASS_SET[s[1].lower()]) if s[1] in ("W", "D", "S") else (False, G.CLASS_SET[s[1]]))
    elif t == "any": acc.add((True, 0))
    elif t in ("set", "nset"):
        inv, chars = False, 0
        for it in s[1]:
            if it[0] == "k" and it[1] in ("W", "D", "S"):
                ex = G.CLASS_SET[it[1].lower()]
                inv, chars = True, ((chars & ex) if inv else (ex & ~chars))
            else:
                st = G.item_set(it)
                chars = (chars & ~st) if inv else (chars | st)
        if t == "nset":
            inv = not inv
        acc.add((inv, chars))
    else:
        for x in s[1:]:
            if isinstance(x, tuple):
                nmfu_classes(x, acc)
    return acc


def category(s, r0, witness):
    """a stable name for the kind of disagreement (part of the violation key)"""
    inv = [c for i, c in nmfu_classes(s, set()) if i]
    for i in range(len(inv)):
        for j in range(i + 1, len(inv)):
            if (inv[i] | inv[j]) == G.ALL:
                return "complementary-inverted-classes"
    if witness["kind"] == "consumes-dead-byte":
        # is the byte dead only because a byte class of the expression is empty?
        r = r0
        for b in witness["input"] + [witness["symbol"]]:
            r = G.deriv(b, r)
        if not void_ignoring_classes(r):
            return "late-mismatch-empty-class"
    return witness["kind"]


def work(job):
    """runs in a worker process: compile one regex under two flag sets, search every distinct machine"""
    idx, origin, s, binary = job
    import nm
    out = {"idx": idx, "origin": origin, "binary": binary, "surface": s, "machines": [], "error": None}
    try:
        text = G.show(s, binary)
    except G.NotPrintable as e:
        out["error"] = ("notprintable", repr(e))
        return out
    src = "parser { %s/%s/; }" % ("b" if binary else "", text)
    out["src"] = src
    out["regex"] = ("b/" if binary else "/") + text + "/"
    r0 = G.desugar(s)
    out["void_language"] = r0.void
    flag_sets = [["-O3"], SECOND_FLAGS[idx % len(SECOND_FLAGS)]]
    seen = {}
    for fl in flag_sets:
        r = nm.compile_source(src, fl)
        if r["verdict"] != "ok":
            out["error"] = (r["verdict"], "%s: %s" % (" ".join(fl), r["message"][:400]), r.get("traceback", "")[-1500:])
            return out
        phases = [("post_convert", r["machines"].get("post_convert")), ("post_optimize", r["machines"].get("post_optimize"))] if fl == ["-O3"] \
            else [("post_optimize", r["machines"].get("post_optimize"))]
        for ph, m in phases:
            name = "%s[%s]" % (ph, "-O0 semantics" if ph == "post_convert" else " ".join(fl))
            if m is None:
                out["machines"].append({"phase": name, "flags": fl, "status": "missing"})
                continue
            key = json.dumps(m, sort_keys=True)
            if key in seen:
                out["machines"].append({"phase": name, "flags": fl, "status": "same", "same_as": seen[key]})
                continue
            seen[key] = len(out["machines"])
            rec = {"phase": name, "flags": fl if ph == "post_optimize" else ["-O0"], "machine": m, "states": len(m["states"])}
            try:
                R, wit = G.product_search(r0, G.Mach(m))
                if wit is None:
                    rec["status"] = "closed"
                    rec["pairs"] = len(R)
                    rec["tok"] = "%s %s %s" % (G.tok_surface(s), G.tok_dfa(m), G.tok_rel(R))
                    rec["coq_rel"] = G.coq_rel(R) if len(R) <= 60 else None
                else:
                    rec["status"] = "witness"
                    rec["witness"] = wit
                    # a disagreement that is absent before optimisation is the optimiser's: it keeps its plain kind
                    pre_ok = out["machines"] and out["machines"][0].get("status") == "closed" and ph == "post_optimize"
                    rec["category"] = wit["kind"] if pre_ok else category(s, r0, wit)
            except (G.SearchLimit, G.MachineShape, RecursionError) as e:
                rec["status"] = "search-failed"
                rec["message"] = "%s: %s" % (type(e).__name__, e)
            out["machines"].append(rec)
    G.reset_table()
    return out


# ---------------------------------------------------------------------------
# confirmation of a witness on the implementation (generated C through gcc)
# ---------------------------------------------------------------------------
C_MAIN = r"""
#include <stdio.h>
#include <stdint.h>
#include "p.h"
int main(int argc, char **argv) {
    p_state_t st;
    p_start(&st);
    for (int i = 1; i < argc; i++) {
        uint8_t b = (uint8_t) atoi(argv[i]);
        int rc = p_feed(&b, &b + 1, &st);
        printf("%s ", rc == P_OK ? "OK" : rc == P_FAIL ? "FAIL" : rc == P_DONE ? "DONE" : "?");
        if (rc != P_OK) break;
    }
    printf("\n");
    return 0;
}
"""


def allowed_codes(s, w):
    """per byte of w: the set of result codes the property allows"""
    r = G.desugar(s)
    blocks = G.byte_classes(r)
    out = []
    for b in w:
        r = G.deriv(b, r)
        if r.void:
            out.append(["FAIL"])
            break
        fin = r.nullable and all(G.deriv(bl[0], r).void for bl in blocks)
        out.append(["OK", "DONE"] if fin else ["OK"])
    return out, (r.nullable and not r.void)


def confirm_in_c(src, flags, w):
    """byte-at-a-time run of the gcc-built parser: list of codes, or None when it cannot be built"""
    import nm
    d = tempfile.mkdtemp(prefix="c07c_", dir=BUILD)
    try:
        r = nm.compile_source(src, [f for f in flags], want_c=True, name="p", export_machines=False)
        if r["verdict"] != "ok" or not r.get("c"):
            return None, "code generation failed: " + r["message"][:200]
        open(os.path.join(d, "p.c"), "w").write(r["c"])
        open(os.path.join(d, "p.h"), "w").write(r["h"])
        open(os.path.join(d, "main.c"), "w").write("#include <stdlib.h>\n" + C_MAIN)
        rc, out = sh(["gcc", "-std=gnu99", "-w", "-O0", "-o", os.path.join(d, "t"), os.path.join(d, "p.c"), os.path.join(d, "main.c")], timeout=120)
        if rc != 0:
            return None, "gcc failed: " + out[-300:]
        rc, out = sh([os.path.join(d, "t")] + [str(b) for b in w], timeout=20)
        return out.split(), None
    finally:
        shutil.rmtree(d, ignore_errors=True)


def report_witness(ctx, res, rec, counts):
    wit, cat = rec["witness"], rec["category"]
    cls = "%s:%s" % (cat, rec["phase"])
    key = "%s:%s:%s" % (cat, rec["phase"], res["regex"])
    if key in counts["_keys"]:
        return
    counts["_keys"].add(key)
    counts[cls] += 1
    if counts[cls] > 3:
        return
    w = list(wit["input"]) + ([wit["symbol"]] if wit["symbol"] not in (None, G.END) else [])
    mach = G.Mach(rec["machine"])
    observed_machine = mach.run(w)
    allowed, in_lang = allowed_codes(res["surface"], w)
    codes, cerr = confirm_in_c(res["src"], rec["flags"], w) if w else (None, "empty input")
    confirmed_c = None          # None: the disagreement does not show in the result codes (it is about the accepting status)
    if codes is not None:
        if any(i >= len(allowed) or c not in allowed[i] for i, c in enumerate(codes)) or \
                (len(codes) < len(allowed) and not (codes and codes[-1] in ("DONE", "FAIL"))):
            confirmed_c = True
    what = "regex %s compiled with %s: on input %r%s the language says '%s' but the machine: %s" % (
        res["regex"], " ".join(rec["flags"]), w, " then end-of-input" if wit["symbol"] == G.END else "", wit["expected"], wit["observed"])
    ctx.violation(key, what, {
        "program": res["src"], "regex": res["regex"], "surface": res["surface"], "binary": res["binary"],
        "flags": rec["flags"], "phase": rec["phase"], "input": w,
        "end_of_input": wit["symbol"] == G.END, "kind": wit["kind"], "category": cat,
        "expected": wit["expected"], "observed": wit["observed"],
        "expected_codes_per_byte": allowed, "input_in_language": in_lang,
        "exported_machine_run": {"code": observed_machine[0], "state": observed_machine[1], "bytes_consumed": observed_machine[2],
                                 "state_accepting": mach.accepting(observed_machine[1])},
        "c_run_codes_per_byte": codes, "c_run_note": cerr, "confirmed_by_gcc_built_parser": confirmed_c,
        "confirmed_by": "exported machine of the real compiler" + (" + gcc-built parser" if confirmed_c else ""),
        "broken": "certificate Regex/ReCheck.re_dfa_check (theorems c07_language / c07_mismatch_is_first_dead_byte)"}, found_input=True)


# ---------------------------------------------------------------------------
# in-Coq certificates
# ---------------------------------------------------------------------------
CERT_PRELUDE = """From Coq Require Import NArith List Bool.
Import ListNotations.
From NV Require Import Machine.Dfa Regex.Re Regex.Surface Regex.ReCheck.
Notation mkT := Build_trans.
Notation mkD := Build_dfa.
"""


def coq_certificates(ctx, items, per_file=20):
    """items: list of (name, surface, machine, coq_rel).  -> list of (name, ok, tail)"""
    import export
    for f in os.listdir(DIR):
        if f.startswith("cert_"):
            os.remove(os.path.join(DIR, f))
    files = []
    for fi in range(0, len(items), per_file):
        part = items[fi:fi + per_file]
        L = [CERT_PRELUDE]
        lines_of = []
        for k, (name, s, m, rel) in enumerate(part):
            i = fi + k
            L.append("(* %s *)" % re.sub(r"[^A-Za-z0-9_ \[\]{}|,.^$?+=<>:;!@#%&~/\\-]", "_", name))
            L.append("Definition s_%d : surface := %s." % (i, G.coq_surface(s)))
            L.append("Definition d_%d : dfa := %s." % (i, export.coq_dfa(m)))
            L.append("Definition R_%d : rel := %s." % (i, rel))
            L.append("Example cert_%d : re_dfa_check (desugar s_%d) d_%d R_%d = true. Proof. vm_compute. reflexivity. Qed." % (i, i, i, i))
        path = os.path.join(DIR, "cert_%03d.v" % (fi // per_file))
        open(path, "w").write("\n".join(L) + "\n")
        files.append((path, part, fi))
    with ThreadPoolExecutor(max_workers=common.NCPU) as ex:
        outs = list(ex.map(lambda f: common.coqc_file(f[0], timeout=1500), files))
    res = []
    for (path, part, fi), (rc, out) in zip(files, outs):
        if rc == 0:
            res += [(name, True, "") for name, _, _, _ in part]
            continue
        # which certificate failed: the Example whose line is reported
        m = re.search(r'line (\d+)', out)
        bad = None
        if m:
            ln = int(m.group(1))
            text = open(path).read().splitlines()
            for l in text[:ln][::-1]:
                mm = re.match(r"(?:Example cert_|Definition [sdR]_)(\d+)", l)
                if mm:
                    bad = int(mm.group(1)) - fi
                    break
        for k, (name, _, _, _) in enumerate(part):
            if bad is not None and k < bad:
                res.append((name, True, ""))
            elif bad is not None and k == bad:
                res.append((name, False, out[-1200:]))
            else:
                res.append((name, None, "not reached: an earlier certificate of the file failed" if bad is not None else out[-1200:]))
    return res


def check_props(ctx):
    """build the proofs and audit Print Assumptions of Props/C07.v"""
    rc, out = common.coq_make(["Regex/RegexProps.vo"], timeout=1200)
    props = os.path.join(COQ, "Props", "C07.v")
    n_thm = len(re.findall(r"^Print Assumptions", open(props).read(), re.M))
    if rc != 0:
        m = re.search(r'File "\./([^"]+)", line (\d+)', out)
        ctx.violation("proof-broken:" + (m.group(1) if m else "coq build"), "the C07 development no longer builds",
                      {"broken": "coq/Regex", "output": out[-2500:]}, found_input=False)
        return False
    rc2, out2 = common.coqc_file(props, timeout=900)
    blocks = common.parse_assumptions(out2)
    closed = sum(1 for b in blocks if b == "closed")
    ctx.coverage["print_assumptions"] = "%d of %d theorems: Closed under the global context" % (closed, n_thm)
    if rc2 != 0 or closed != n_thm:
        ctx.violation("props-c07", "coq/Props/C07.v does not check or depends on axioms",
                      {"broken": "coq/Props/C07.v", "output": out2[-2500:]}, found_input=False)
        return False
    hits = [h for h in common.coq_audit_sources() if h.startswith("Regex/") or h.startswith("Props/C07")]
    if hits:
        ctx.violation("forbidden-vernacular", "forbidden vernacular in the C07 development: %s" % hits[:3], {"hits": hits}, found_input=False)
        return False
    return True


def run(ctx):
    quick = ctx.tier == "quick"
    ctx.trusted += [
        "specification: coq/Regex/Surface.v (lang: the language of a surface regex) and coq/Regex/Re.v (matches)",
        "harness/regexgen.py show(): the printer from the surface AST to nmfu regex text (the theorem speaks about the AST)",
        "harness/export.py (DFA objects of the real compiler -> exported machine) and coq/Machine/Sem.v as the reading of the emitted C (tied by C06)",
        "extraction (ExtrOcamlBasic only) + OCaml 4.13.1 for the volume route; a sample is re-certified by the Coq kernel",
    ]
    ctx.assumptions += [
        "the regex quantifier is covered by generation (exhaustive small ASTs + random larger + directed corners); bytes strings, machine states and data values are covered by theorem",
        "the input is presented as one chunk to Sem.feed_go; chunking independence is C02's subject",
        "acceptance is read off the machine (ROk in an accepting state, or DONE on the last byte): without a following construct the C API shows it only as DONE",
    ]
    if not check_props(ctx):
        return
    err = build_extracted()
    if err:
        ctx.violation("rechk-build", "the extracted checker does not build: " + err[:200], {"broken": "extraction of Regex/ReCheck", "output": err}, found_input=False)
        return
    cases = make_cases(ctx)
    ctx.log("%d regexes generated" % len(cases))
    jobs = [(i, o, s, b) for i, (o, s, b) in enumerate(cases)]
    nproc = min(common.NCPU, 12)
    with multiprocessing.get_context("fork").Pool(nproc) as pool:
        results = pool.map(work, jobs, chunksize=max(1, len(jobs) // (nproc * 8)))
    ctx.log("compiled and searched")
    feats, origins, verdicts = collections.Counter(), collections.Counter(), collections.Counter()
    counts = collections.Counter()
    counts["_keys"] = set()
    lines, closed_recs = [], []
    n_checks = n_closed = n_witness = n_pairs = 0
    programs = 0
    rejected = collections.Counter()
    for res in results:
        origins[res["origin"]] += 1
        if res["error"]:
            kind = res["error"][0]
            verdicts[kind] += 1
            if kind == "notprintable":
                continue
            rejected[kind] += 1
            if rejected[kind] <= 3:
                ctx.violation("rejected:%s:%s" % (kind, res["regex"]),
                              "a regex of the dialect is not compiled (%s): %s" % (kind, res["error"][1]),
                              {"program": res["src"], "regex": res["regex"], "verdict": kind, "message": res["error"][1],
                               "traceback": res["error"][2] if len(res["error"]) > 2 else "", "input": res["src"],
                               "broken": "compilation of a dialect regex"}, found_input=True)
            continue
        verdicts["ok"] += 1
        programs += 1
        for f in G.features(res["surface"]):
            feats[f] += 1
        feats["binary-form" if res["binary"] else "text-form"] += 1
        if res["void_language"]:
            feats["empty-language"] += 1
        for mi, rec in enumerate(res["machines"]):
            n_checks += 1
            st = rec["status"]
            if st == "same":
                st = res["machines"][rec["same_as"]]["status"]
                if st == "closed":
                    n_closed += 1
                elif st == "witness":
                    n_witness += 1
                continue
            if st == "closed":
                n_closed += 1
                n_pairs += rec["pairs"]
                cid = "%d.%d" % (res["idx"], mi)
                lines.append(cid + " " + rec["tok"])
                closed_recs.append((cid, res, rec))
            elif st == "witness":
                n_witness += 1
                report_witness(ctx, res, rec, counts)
            else:
                counts["search:" + rec["phase"]] += 1
                if counts["search:" + rec["phase"]] <= 3:
                    ctx.violation("search-failed:%s:%s" % (rec["phase"], res["regex"]),
                                  "no certificate could be produced for %s (%s): %s" % (res["regex"], rec["phase"], rec.get("message", st)),
                                  {"program": res["src"], "regex": res["regex"], "flags": rec.get("flags"), "broken": "certificate search (product did not close)"}, found_input=False)
    # negative controls: the same certificates against a machine whose start state has its accepting status flipped
    controls = []
    for cid, res, rec in closed_recs[:: max(1, len(closed_recs) // 12)][:12]:
        m2 = json.loads(json.dumps(rec["machine"]))
        m2["acc"] = sorted(set(m2["acc"]) ^ {m2["start"]})
        tok_r = rec["tok"][len(G.tok_surface(res["surface"])) + 1 + len(G.tok_dfa(rec["machine"])) + 1:]
        controls.append("neg%s %s %s %s" % (cid, G.tok_surface(res["surface"]), G.tok_dfa(m2), tok_r))
    # route 2: the verified checker, extracted
    t0 = time.time()
    ext = run_extracted(lines + controls)
    bad_controls = [c.split(" ", 1)[0] for c in controls if ext.get(c.split(" ", 1)[0]) != "false"]
    ctx.coverage["negative_controls_rejected"] = "%d of %d" % (len(controls) - len(bad_controls), len(controls))
    if bad_controls or not controls:
        ctx.violation("checker-selftest", "the extracted checker accepts a certificate against a machine with a flipped accepting state: %r" % bad_controls[:3],
                      {"broken": "build/c07/rechk self-test", "controls": bad_controls}, found_input=False)
    ctx.log("extracted checker: %d certificates in %.1fs" % (len(lines), time.time() - t0))
    ext_ok = 0
    for cid, res, rec in closed_recs:
        v = ext.get(cid, "error missing")
        if v == "true":
            ext_ok += 1
        else:
            counts["rejected-cert"] += 1
            if counts["rejected-cert"] <= 3:
                ctx.violation("certificate-rejected:%s:%s" % (rec["phase"], res["regex"]),
                              "the verified checker rejects the certificate the search produced for %s (%s): %s" % (res["regex"], rec["phase"], v),
                              {"program": res["src"], "regex": res["regex"], "flags": rec["flags"], "checker_says": v,
                               "broken": "certificate Regex/ReCheck.re_dfa_check (search and checker disagree)"}, found_input=False)
    # route 1: inside Coq, for a sample
    want = 80 if quick else 400
    eligible = [(cid, res, rec) for cid, res, rec in closed_recs if rec["coq_rel"] is not None and rec["states"] <= 40]
    pri = [x for x in eligible if x[1]["origin"] == "directed"]
    rest = [x for x in eligible if x[1]["origin"] != "directed"]
    ctx.rng.shuffle(rest)
    # prefer one certificate per regex, and a spread over origins
    chosen, seen_rx = [], set()
    for x in pri + rest:
        if len(chosen) >= want:
            break
        if x[1]["idx"] in seen_rx and x[1]["origin"] != "directed":
            continue
        seen_rx.add(x[1]["idx"])
        chosen.append(x)
    items = [("%s %s" % (res["regex"], rec["phase"]), res["surface"], rec["machine"], rec["coq_rel"]) for cid, res, rec in chosen]
    t0 = time.time()
    cres = coq_certificates(ctx, items)
    coq_ok = sum(1 for _, ok, _ in cres if ok)
    ctx.log("in-Coq certificates: %d of %d accepted by the kernel in %.1fs" % (coq_ok, len(items), time.time() - t0))
    for (name, ok, tail), (cid, res, rec) in zip(cres, chosen):
        if ok is False or (ok is None and not tail.startswith("not reached")):
            ctx.violation("coq-certificate:%s:%s" % (rec["phase"], res["regex"]), "the in-Coq certificate for %s is rejected" % name,
                          {"program": res["src"], "regex": res["regex"], "flags": rec["flags"], "output": tail,
                           "broken": "Example cert : re_dfa_check (desugar s) d R = true"}, found_input=False)
        if ok and ext.get(cid) != "true":
            ctx.violation("routes-disagree:%s" % res["regex"], "Coq accepts a certificate the extracted checker rejects", {"regex": res["regex"]}, found_input=False)
    ctx.coverage.update({
        "programs": programs, "machine_checks": n_checks, "certified_machines": n_closed, "disagreements_checked": n_witness,
        "evaluations": n_pairs * 257, "distinct_nontrivial": programs,
        "product_pairs_checked": n_pairs, "symbols_per_pair": 257,
        "certified_in_coq": coq_ok, "certified_by_extracted_checker": ext_ok,
        "compiler_verdicts": dict(verdicts), "origins": dict(origins),
        "regex_features": dict(sorted(feats.items())),
        "disagreement_classes": {k: v for k, v in counts.items() if k != "_keys"},
        "theorems": THEOREMS,
        "rule": "every (derivative, state) pair reachable in the product x all 256 bytes + end-of-input, validated by Regex/ReCheck.re_dfa_check",
        "checker_cmd": "coqc coq/Props/C07.v (Print Assumptions); build/c07/rechk (extracted re_dfa_check) ; coqc build/c07/cert_*.v",
    })
    step = max(1, len(closed_recs) // 8)
    for cid, res, rec in closed_recs[::step][:8]:
        ctx.samples.append({"regex": res["regex"], "phase": rec["phase"], "machine_states": rec["states"], "relation_pairs": rec["pairs"], "verdict": "certified"})
    for res in results:
        for rec in res["machines"]:
            if rec.get("status") == "witness" and len(ctx.samples) < 12:
                w = rec["witness"]
                ctx.samples.append({"regex": res["regex"], "phase": rec["phase"], "verdict": "disagreement", "input": w["input"], "symbol": w["symbol"], "kind": rec["category"]})
    ctx.samples.append({"theorem": "c07_language", "statement": "re_dfa_check (desugar s) d R = true -> forall w x, bytes w -> (accepts D exec evalt d w x <-> lang s w)"})


def to_tuple(x):
    return tuple(to_tuple(y) for y in x) if isinstance(x, list) else x


def replay(ctx, path):
    """re-run one recorded disagreement on the current tree: exit 1 when it still disagrees"""
    rec = json.load(open(path))
    import nm
    src, flags, w = rec.get("program"), rec.get("flags") or ["-O0"], rec.get("input")
    if not src:
        print("replay: nothing to run in", path)
        return 2
    r = nm.compile_source(src, flags)
    print("program:", src, "flags:", flags, "verdict:", r["verdict"], r["message"][:200])
    if r["verdict"] != "ok":
        return 1
    ph = "post_convert" if rec.get("phase", "").startswith("post_convert") else "post_optimize"
    mach = G.Mach(r["machines"][ph])
    still = None
    if rec.get("surface") is not None:
        s = to_tuple(rec["surface"])
        try:
            R, wit = G.product_search(G.desugar(s), mach)
            still = wit is not None
            print("product search on the current tree:", "closed, %d pairs (no disagreement)" % len(R) if wit is None else "disagreement %r" % wit)
        except (G.SearchLimit, G.MachineShape) as e:
            still = True
            print("product search failed:", e)
    if isinstance(w, list):
        print("input:", w, "-> exported machine:", mach.run(w), " expected:", rec.get("expected"))
        codes, cerr = confirm_in_c(src, flags, w) if w else (None, "empty input")
        print("gcc-built parser, byte at a time:", codes, cerr or "")
        print("allowed codes per byte:", rec.get("expected_codes_per_byte"))
    return 1 if still or still is None else 0
