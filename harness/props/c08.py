"""C08 - a case statement runs exactly the clause whose pattern matched.

(1) Props/C08.v, over the procedural reading and the declarative meaning of patterns, for all clause sets and texts:
the selected clause has a pattern equal to the consumed text; a clause is found iff some pattern matches; else /
no-match exactly when no pattern can continue; greedy = matching pattern of highest priority.
(2) Per accepted program (case-centred generator: several patterns per clause, regex clauses, else alone / combined,
cases inside try with handlers that look at the offending byte, greedy cases with priorities in yield mode): the
compiled machine is validated against the reading (Ref/Sim.v certificate) with distinct markers per clause, so the
clause taken and the byte at which its body / the else body / the handler starts are events.
"""
import os, random, collections
import common, gen, refsem
from props import c01

LEVEL = "translation_validation"


def run(ctx):
    quick = ctx.tier == "quick"
    ctx.trusted += ["coq/Ref/RefSem.v (the reading of case / greedy case: parallel derivative vector) is a definition; Props/C08.v ties it to Regex/Re.v matches",
                    "harness/gen.py printer, harness/refsem.py (tree -> Lang term), exporter + Machine/Sem.v (tied to C by C06), extraction; a sample certified by the kernel"]
    ctx.assumptions += ["program quantifier sampled (case-centred generator, -O0..-O3); inputs and data by theorem",
                        "string assignments erased as in C01; markers are hooks / yield codes (timing-strict)"]
    err = refsem.ensure_refk()
    if err:
        ctx.violation("refk-build", "the extracted validator does not build: " + err[:300], {"broken": "coq/Ref or extraction", "output": err}, found_input=False)
        return
    rc, out = common.coq_make(["Props/C08.vo"])
    src = open(os.path.join(common.COQ, "Props", "C08.v")).read()
    ctx.obligations = src.count("Print Assumptions")
    if rc != 0:
        ctx.violation("proof:Props/C08.v", "the development no longer checks", {"broken": "coq/Props/C08.v", "output": out[-1500:]}, found_input=False)
        return
    rc, out = common.coqc_file(os.path.join(common.COQ, "Props", "C08.v"))
    blocks = common.parse_assumptions(out)
    ctx.discharged = sum(1 for b in blocks if b == "closed")
    if ctx.discharged != ctx.obligations:
        ctx.violation("proof:assumptions", "a C08 theorem depends on axioms: %r" % blocks, {"broken": "Print Assumptions", "output": out[-800:]}, found_input=False)
    # known finding: one witness
    wp = {"outs": [], "hooks": [], "finish_codes": [], "yield_codes": ["Y0", "Y1"],
          "body": [("match", ("lit", b"q")), ("loop", None, [("gcase", [(None, [("re", ("plus", ("set", [(97, 97)], True)))], [("yield", "Y0")]),
                                                                          (None, [("re", ("plus", ("c", 97)))], [("yield", "Y1")])])])]}
    wsrc = gen.pr_prog(wp)
    c = c01.convert(wp, wsrc, ["-fyield-support"], "-O0")
    if c["verdict"] == "ok":
        res = refsem.run_refk([refsem.task_ref(c["epr"], c["em"], c["I"], False)], timeout=300)[0]
        if not res.startswith("ok"):
            inp = list(b"qxxaaxx")
            ctx.violation("case:inverted-class-loses-rejected-symbols:witness",
                          "an inverted class in a clause pattern loses the symbols it rejects when the clause automata are merged: yieldcode Y0, Y1; parser { \"q\"; loop { greedy case { /[^a]+/ -> { yield Y0; } /a+/ -> { yield Y1; } } } } consumes q x x a a x x as ONE token without yielding (the leaving transition of the [^a]+ state has an empty symbol set, so a falls into its Else loop)",
                          {"program": wsrc, "flags": ["-O0", "-fyield-support"], "input": inp, "certificate": res[:400],
                           "binary": c01.run_binary(wsrc, ["-O0", "-fyield-support"], inp, os.path.join(common.BUILD, "c08", "w"))}, found_input=True)
        else:
            ctx.log("witness: the finding no longer reproduces")
    w2 = {"outs": [], "hooks": ["h0", "h3"], "finish_codes": [], "yield_codes": [],
          "body": [("match", ("lit", b"q")), ("case", [([("re", ("plus", ("seq", [("c", 100), ("c", 97), ("c", 107)])))], [("hook", "h0")])]), ("hook", "h3"), ("match", ("lit", b"\n"))]}
    w2src = gen.pr_prog(w2)
    c2 = c01.convert(w2, w2src, [], "-O0")
    if c2["verdict"] == "ok":
        res2 = refsem.run_refk([refsem.task_ref(c2["epr"], c2["em"], c2["I"], False)], timeout=300)[0]
        if not res2.startswith("ok"):
            inp2 = list(b"qdakdak\n")
            ctx.violation("case:open-ended-clause-runs-per-repetition:witness",
                          "a clause whose pattern can be extended after a complete match runs its body (and what follows the case) at every completion: hook h0; hook h3; parser { \"q\"; case { /(dak)+/ -> { h0(); } } h3(); \"\\n\"; } calls h0 and h3 twice on qdakdak\\n",
                          {"program": w2src, "flags": ["-O0"], "input": inp2, "certificate": res2[:400],
                           "binary": c01.run_binary(w2src, ["-O0"], inp2, os.path.join(common.BUILD, "c08", "w2"))}, found_input=True)
        else:
            ctx.log("witness 2: the finding no longer reproduces")
    w3 = {"outs": [], "hooks": ["h0", "h1", "h2"], "finish_codes": [], "yield_codes": [],
          "body": [("match", ("lit", b"q")), ("gcase", [(2, [("lit", b"cak")], [("hook", "h0")]), (2, [("lit", b"bcc")], [("hook", "h1")]),
                                                          (None, [("re", ("plus", ("set", [(97, 100)], False)))], [("hook", "h2"), ("match", ("lit", b";"))])]), ("match", ("lit", b"\n"))]}
    w3src = gen.pr_prog(w3)
    c3 = c01.convert(w3, w3src, [], "-O0")
    if c3["verdict"] == "ok":
        res3 = refsem.run_refk([refsem.task_ref(c3["epr"], c3["em"], c3["I"], False)], timeout=300)[0]
        if not res3.startswith("ok"):
            inp3 = list(b"qbccd;\n")
            ctx.violation("case:greedy-action-only-clause-runs-early:witness",
                          "an action-only clause of a greedy case runs as soon as its pattern is complete although the input goes on to a longer match of another pattern: on qbccd;\\n both h1 (clause bcc, at the second c) and h2 (clause /[a-d]+/, which matches bccd) are called",
                          {"program": w3src, "flags": ["-O0"], "input": inp3, "certificate": res3[:400],
                           "binary": c01.run_binary(w3src, ["-O0"], inp3, os.path.join(common.BUILD, "c08", "w3"))}, found_input=True)
        else:
            ctx.log("witness 3: the finding no longer reproduces")
    n = 450 if quick else 2400
    levels = ["-O0", "-O3"] if quick else ["-O0", "-O1", "-O2", "-O3"]
    shapes = collections.Counter()
    def progs():
        for i in range(n):
            p, src_, flags = gen.gen_case_program(random.Random(ctx.rng.getrandbits(48)))
            shapes["greedy" if any(s[0] in ("gcase",) or (s[0] == "loop") for s in p["body"]) else "case"] += 1
            yield p, src_, flags
    st = c01.validate(ctx, progs(), levels, quick, "c08", "c08_compiled_trace_is_a_reading", "Props.C08", 14 if quick else 80)
    greedy_ok = sum(1 for c, r in zip(st["cases"], st["results"]) if r.startswith("ok") and "greedy case" in c["src"])
    ctx.coverage.update({"programs": len(st["cases"]), "programs_certified_extracted": st["okc"], "programs_certified_in_coq": st["coq_ok"], "disagreements_checked": st["nviol"],
                         "greedy_programs_certified": greedy_ok, "generated": dict(shapes), "compiler_verdicts": dict(st["verd"]), "levels": levels, "statement_kinds": dict(st["feats"]),
                         "theorems": ["c08_selected_clause_matches", "c08_clause_found_iff_some_pattern_matches", "c08_else_exactly_when_no_pattern_continues",
                                      "c08_greedy_selects_highest_priority_match", "c08_compiled_trace_is_a_reading"],
                         "checker_cmd": "coqc coq/Props/C08.v ; ocaml/refk ref ; coqc build/c08/cert_*.v"})
    for c, res in list(zip(st["cases"], st["results"]))[:: max(1, len(st["cases"]) // 5)][:5]:
        ctx.samples.append({"program": c["src"], "flags": c["flags"], "result": res[:60]})
