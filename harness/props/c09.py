"""C09 - acceptance implies one-byte-lookahead unambiguity.

coq/Ref/Unambig.v defines, over the procedural reading (Ref/RefSem.v), when a decision taken by looking at the next
symbol admits two continuations (optional entered / skipped, open-ended match continued / ended, two clauses of a case,
a clause complete while another pattern continues, a priority tie in a greedy case) and decides it for every
configuration the reading can reach (Props/C09.v: the table of configurations is closed under steps, hence contains
every reachable configuration; a passed check means no decision of any of them is ambiguous on any symbol).
The property is decided per ACCEPTED program: the compiler accepted it  =>  unambig_check = true.  An accepted program
with an ambiguity yields the kind, the configuration, the symbol and an input that reaches it; the replay shows the
parser silently choosing one continuation.  Nothing is demanded of rejected programs.
"""
import os, json, random, collections, shutil
import common, nm, export, gen, refsem
from props import c01

LEVEL = "translation_validation"

# accepted although ambiguous on the unchanged tree: one witness per class (the key carries kind and shape)
def shape_class(tag):
    return tag.split(":")[0].replace(";B", "")


def run(ctx):
    quick = ctx.tier == "quick"
    ctx.trusted += ["coq/Ref/RefSem.v (the reading) and coq/Ref/Unambig.v (what counts as two continuations) are definitions; first symbols are those of patterns: an else clause and the skipping of a wait are what happens when nothing else applies, not alternatives",
                    "harness/gen.py printer and harness/refsem.py (tree -> Lang term)", "extraction (ExtrOcamlBasic only) of Ref.Unambig.unambig_run (the boolean equality that names table entries is proved to imply equality: Ref/LangEq.v)"]
    ctx.assumptions += ["program quantifier is sampled: near-ambiguous statement pairs and clause sets over a three-letter alphabet + the C01 population; symbols 0..255 (end-of-input excluded)",
                        "the converse (rejected => ambiguous) is not demanded by the property and not checked"]
    err = refsem.ensure_refk()
    if err:
        ctx.violation("refk-build", "the extracted checker does not build: " + err[:300], {"broken": "coq/Ref or extraction", "output": err}, found_input=False)
        return
    rc, out = common.coq_make(["Props/C09.vo"])
    props_src = open(os.path.join(common.COQ, "Props", "C09.v")).read()
    ctx.obligations = props_src.count("Print Assumptions")
    if rc != 0:
        ctx.violation("proof:Props/C09.v", "the development no longer checks", {"broken": "coq/Props/C09.v", "output": out[-1500:]}, found_input=False)
        return
    rc, out = common.coqc_file(os.path.join(common.COQ, "Props", "C09.v"))
    blocks = common.parse_assumptions(out)
    ctx.discharged = sum(1 for b in blocks if b == "closed")
    if ctx.discharged != ctx.obligations:
        ctx.violation("proof:assumptions", "a C09 theorem depends on axioms: %r" % blocks, {"broken": "Print Assumptions", "output": out[-800:]}, found_input=False)

    n_near = 500 if quick else 4000
    n_pop = 80 if quick else 600
    cases, verd, shapes = [], collections.Counter(), collections.Counter()
    for i in range(n_near):
        p, src, tag = gen.gen_ambig_candidate(random.Random(ctx.rng.getrandbits(48)))
        c = c01.convert(p, src, [], "-O0")
        verd["near:" + c["verdict"]] += 1
        shapes[shape_class(tag) + ":" + c["verdict"]] += 1
        if c["verdict"] == "ok":
            cases.append(("near%d" % i, tag, src, c))
    for i in range(n_pop):
        r = random.Random(ctx.rng.getrandbits(48))
        p, src = gen.gen_program(r, gen.Profile(ifact=2, max_stmts=4, gcase=1) if i % 2 else c01.profile(r, False))
        c = c01.convert(p, src, [], "-O0")
        verd["pop:" + c["verdict"]] += 1
        if c["verdict"] == "ok":
            cases.append(("pop%d" % i, "population", src, c))
    # directed shapes the generators do not produce: an optional as the last statement of a loop body whose first symbol also
    # begins the next iteration (the loop check looks at accept-to-accept transitions only)
    from props.c01 import _prog, LIT
    for wname, wp in (("loop-end-optional-vs-next-iteration", _prog([("loop", None, [LIT(b"a"), ("optional", [LIT(b"ab")])])])),
                      ("loop-end-optional-vs-next-iteration-2", _prog([("loop", None, [LIT(b"1"), ("match", ("re", ("seq", [("star", ("set", [(48, 57)], False)), ("c", 120)]))), ("optional", [LIT(b"1y")])])]))):
        wsrc = gen.pr_prog(wp)
        wc = c01.convert(wp, wsrc, [], "-O0")
        verd["directed:" + wc["verdict"]] += 1
        if wc["verdict"] == "ok":
            cases.append((wname, "loopendopt:directed", wsrc, wc))
    results = refsem.run_refk([refsem.task_amb(c["pr"]) for _, _, _, c in cases], timeout=600)
    ok = amb = 0
    kinds = collections.Counter()
    seen_keys = set()
    for (name, tag, src, c), res in zip(cases, results):
        if res.startswith("ok"):
            ok += 1
            continue
        if res.startswith("amb"):
            amb += 1
            head, _, path = res.partition("|")
            parts = head.split()
            kind, sym = parts[1], int(parts[2])
            kinds[kind + ":" + shape_class(tag)] += 1
            key = "accepted-ambiguous:%s:%s" % (kind, shape_class(tag))
            if key in seen_keys:
                continue            # one report per class and run; the count is in the evidence
            seen_keys.add(key)
            inp = [int(x) for x in path.split() if x.isdigit()]
            wd = os.path.join(common.BUILD, "c09", "r%d" % len(seen_keys))
            rep = {"program": src, "flags": ["-O0"], "ambiguity": kind, "configuration": " ".join(parts[3:]), "input_reaching_it": inp, "symbol": sym,
                   "input": inp + [sym], "broken": "Ref.Unambig.unambig_check (Props/C09.v)",
                   "binary_on_input_then_symbol": c01.run_binary(src, ["-O0"], inp + [sym], wd)}
            ctx.violation(key, "the compiler accepts a program in which symbol %d admits two continuations (%s) after input %r" % (sym, kind, bytes(inp)[:30]), rep, found_input=True)
        else:
            ctx.violation("amb-checker:%s" % name, "the checker failed on an accepted program: " + res[:120], {"program": src, "broken": "Ref.Unambig.unambig_run"}, found_input=False)
    ctx.coverage.update({"programs": len(cases), "programs_certified_extracted": ok, "disagreements_checked": amb, "ambiguity_classes_seen": dict(kinds),
                         "compiler_verdicts": dict(verd), "shapes_by_verdict": dict(shapes),
                         "theorems": ["Props/C09.v c09_no_decision_ambiguous", "Props/C09.v c09_reachable_in_table"],
                         "checker_cmd": "ocaml/refk amb (extracted Ref.Unambig.unambig_run)"})
    for (name, tag, src, c), res in list(zip(cases, results))[:: max(1, len(cases) // 5)][:5]:
        ctx.samples.append({"program": src, "shape": tag, "result": res[:80]})
