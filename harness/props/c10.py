"""C10 - result codes and the start pointer follow the documented protocol.

Proof over the model (coq/Props/C10.v: OK only after the whole chunk under the per-machine certificate
no_stuck_ok; consumed <= chunk length; the fail state is absorbing for feed and end) + per-machine
certificates + correspondence: the gcc-built parser (indirect start pointer) is driven through call
histories that continue after terminal results and after every yield; its codes, *start positions and
outputs must agree with the extracted model call by call, and the protocol predicates are evaluated on
the binary's own trace.
"""
import os, re, json, random, collections, shutil
from concurrent.futures import ThreadPoolExecutor
import common, nm, export, gen, mach, cdrv
from props import c02

LEVEL = "proof"


def job(args):
    idx, name, src, flags, seed, quick, P0 = args
    rng = random.Random(seed)
    wd = os.path.join(common.BUILD, "c10", "p%04d" % idx)
    P = cdrv.prepare_build(P0, wd)
    res = {"name": name, "flags": flags, "src": src, "ok": P["ok"], "why": P.get("why"), "runs": 0, "calls": 0, "viol": []}
    if not P["ok"]:
        return res
    m = P["m"]
    res["machine"] = m
    special = set(cdrv.special_bytes(P["I"]))
    cmds, meta = [P["cp"].init_vals()], []
    for k in range(14 if quick else 60):
        inp = cdrv.random_input(m, rng, maxlen=rng.choice([2, 4, 8, 16, 30]), special=special)
        if rng.random() < 0.4 and inp:
            inp = inp[:rng.randrange(len(inp) + 1)] + [rng.randrange(256)] + [rng.choice(inp)] * rng.randint(0, 3)   # force errors mid-way, then more input
        if not inp:
            continue
        lens = rng.choice(cdrv.all_splits(len(inp), rng, limit=12))
        mode = rng.choice([3, 3, 2, 1, 0]) if P["eof"] else rng.choice([2, 2, 0])
        cmds.append("run %d %s %s %d" % (len(lens), " ".join(map(str, lens)), " ".join(map(str, inp)), mode))
        meta.append((inp, lens, mode))
    text = "\n".join(cmds) + "\n"
    rc1, cl, cerr = cdrv.run_c(wd, text, timeout=120)
    rc2, ml, merr = cdrv.run_model(P["dfa_text"], P["cfg_text"], text, timeout=300)
    shutil.rmtree(wd, ignore_errors=True)
    cb, mb = cdrv.split_blocks(cl), cdrv.split_blocks(ml)
    res["runs"] = len(meta)
    if rc1 != 0 or len(cb) != len(meta):
        res["viol"].append({"kind": "c-binary-exit", "rc": rc1, "stderr": cerr[-300:], "blocks": len(cb), "expected": len(meta)})
        return res
    fail_state = [i for i, st in enumerate(m["states"]) if st["kind"] == "fail"]
    for (inp, lens, mode), cbk, mbk in zip(meta, cb, mb + [[]] * len(cb)):
        res["calls"] += len(cbk)
        # (1) tie: binary vs model, call by call (codes, state, consumed = *start movement, outputs, hooks)
        if not any(x.startswith("UNDEF") for x in mbk):
            d, u = cdrv.compare(cbk, mbk, P["direct"])
            if d:
                res["viol"].append({"kind": "c-vs-model", "input": inp, "split": lens, "mode": mode, "first_diff": d[0]})
                break
        # (2) protocol predicates on the binary's own trace
        calls = [cdrv.parse_line(l) for l in cbk]
        if any(c is None for c in calls):
            res["viol"].append({"kind": "unparsable", "lines": cbk[:3]}); break
        seen_fail = False
        # calls[0] is start(); chunk boundaries: reconstruct which chunk each feed call belongs to
        ci, left = 0, (lens[0] if lens else 0)
        for k, c in enumerate(calls[1:], 1):
            is_end_call = (mode & 1) and P["eof"] and k == len(calls) - 1 and c["consumed"] == 0 and ci >= len(lens)
            if seen_fail and c["code"] != "FAIL":
                res["viol"].append({"kind": "fail-not-absorbing", "input": inp, "split": lens, "call": k, "line": cbk[k], "previous": cbk[k - 1]})
                break
            if c["code"] == "FAIL":
                seen_fail = True
            if not P["direct"] and not is_end_call and ci < len(lens):
                if c["consumed"] < 0 or c["consumed"] > left:
                    res["viol"].append({"kind": "cursor-out-of-chunk", "input": inp, "split": lens, "call": k, "line": cbk[k]})
                    break
                if c["code"] == "OK" and c["consumed"] != left:
                    res["viol"].append({"kind": "ok-without-consuming-all", "input": inp, "split": lens, "call": k, "line": cbk[k], "chunk_left": left})
                    break
                left -= c["consumed"]
                if c["code"].startswith("Y"):
                    if left == 0 and not m["end_check"]:
                        ci += 1; left = lens[ci] if ci < len(lens) else 0
                else:
                    ci += 1; left = lens[ci] if ci < len(lens) else 0
        if res["viol"]:
            break
    return res


def run(ctx):
    err = mach.ensure_machk()
    if err:
        ctx.violation("build", "extracted tools do not build: " + err[:200], {"broken": "extraction"}, found_input=False)
        return
    c02.proofs(ctx, "C10.v", deps=("Machine/Chunk.vo", "Machine/FailSticky.vo", "Machine/Drive.vo"))
    quick = ctx.tier == "quick"
    rng = ctx.rng
    jobs = []
    for name, src, flags in c02.program_stream(ctx, 40 if quick else 500):
        base = [f for f in flags if not f.startswith("-O")]
        variants = [base + ["-O1", "-findirect-start-ptr"], base + [rng.choice(["-O0", "-O2", "-O3"]), "-findirect-start-ptr", rng.choice(["-fstrict-done-token-generation", "-feof-support", "-fzero-len-input-support"])]]
        for fl in variants:
            fl = list(dict.fromkeys(fl))
            jobs.append((len(jobs), name, src, fl, rng.getrandbits(32), quick, cdrv.prepare_compile(src, fl, max_states=120)))
    for nlit in (253, 254, 255, 256):
        src_b = 'parser { "%s"; }' % ("ab" * 200)[:nlit]
        for fl in (["-O1", "-findirect-start-ptr"], ["-O0", "-findirect-start-ptr"]):
            jobs.append((len(jobs), "literal%d" % nlit, src_b, fl, rng.getrandbits(32), quick, cdrv.prepare_compile(src_b, fl, max_states=400)))
    with ThreadPoolExecutor(max_workers=common.NCPU) as ex:
        results = list(ex.map(job, jobs))
    good = [r for r in results if r["ok"]]
    certs = mach.run_machk([mach.task_wf(r["machine"]) for r in good])
    ncert = collections.Counter()
    for r, w in zip(good, certs):
        ncert[w.split()[0]] += 1
        if w.startswith("stuck"):
            q, b = w.split()[1:3]
            path = mach.reach_path(r["machine"], int(q)) if q.isdigit() else None
            ctx.violation("stuck-ok:%s:%s:q%s:b%s" % (r["name"], " ".join(r["flags"]), q, b),
                          "machine state %s has no applicable transition for byte %s and is not accepting: feed returns OK without consuming the chunk" % (q, b),
                          {"program": r["src"], "flags": r["flags"], "state": q, "byte": b, "input": (path or []) + [int(b)] if b.isdigit() else None,
                           "broken": "certificate no_stuck_ok (hypothesis of c10_ok_consumes_all)"}, found_input=path is not None)
        elif w != "ok":
            ctx.violation("wf:%s:%s" % (r["name"], " ".join(r["flags"])), "certificate check failed: " + w[:60], {"program": r["src"], "flags": r["flags"]}, found_input=False)
    # FAIL position: certificate fail_entry_ok (hypothesis of c10_fail_at_first_offending_byte) for every compiled machine,
    # the EOF shapes of C17 included (standalone `end` statements build their own error transitions)
    fp_machines = [(r["name"], r["flags"], r["src"], r["machine"]) for r in good]
    for i in range(40 if quick else 400):
        ast_e, src_e = gen.gen_eof_shape(random.Random(rng.getrandbits(48)))
        for lvl in ("-O0", "-O2"):
            re_ = nm.compile_source(src_e, [lvl, "-feof-support"], interner=export.Interner())
            if re_["verdict"] == "ok":
                fp_machines.append(("eof%d" % i, [lvl, "-feof-support"], src_e, re_["machines"]["post_optimize"]))
    fcert = mach.run_machk([mach.task_failpos(m) for (_, _, _, m) in fp_machines])
    nfp = collections.Counter()
    for (name_, flags_, src_, m_), w in zip(fp_machines, fcert):
        nfp[w.split()[0]] += 1
        if w.startswith("failentry"):
            q, b = w.split()[1:3]
            path = mach.reach_path(m_, int(q)) if q.isdigit() else None
            ctx.violation("fail-position:%s:%s:q%s:b%s" % (name_, " ".join(flags_), q, b),
                          "in machine state %s byte %s is consumed on the way into the fail state (or FAIL is returned behind it): FAIL is then reported one byte past the offending byte, or only by the next call" % (q, b),
                          {"program": src_, "flags": flags_, "state": q, "byte": b, "input": (path or []) + [int(b)] if b.isdigit() else None,
                           "broken": "certificate fail_entry_ok (hypothesis of c10_fail_at_first_offending_byte)"}, found_input=path is not None)
        elif w.startswith("failsticky"):
            q, b = w.split()[1:3]
            path = mach.reach_path(m_, int(q)) if q.isdigit() else None
            ctx.violation("fail-sticky:%s:%s:q%s:s%s" % (name_, " ".join(flags_), q, b),
                          "in machine state %s symbol %s makes a call return FAIL while the machine is left in a state that is not the fail state: a later call can succeed although FAIL has been returned" % (q, b),
                          {"program": src_, "flags": flags_, "state": q, "symbol": b, "input": (path or []) + [int(b)] if b.isdigit() else None,
                           "broken": "certificate fail_sticky_ok (hypothesis of c10_fail_is_for_ever)"}, found_input=path is not None)
        elif w != "ok":
            ctx.violation("fail-position-check:%s:%s" % (name_, " ".join(flags_)), "certificate check failed: " + w[:60], {"program": src_, "flags": flags_}, found_input=False)
    ctx.coverage["fail_position_certificates"] = dict(nfp)
    # known finding (found by the C01 validator): one witness, re-checked on every run
    WSRC = """out int{signed, size 1} n0; out unterminated str[2] s0; out str[3] s1 = "a\\x00"; finishcode F0, F1; yieldcode Y0, Y1;
parser {
    try { "#"; } catch { if n0 != 0 { n0 = [n0 + 1]; } }
    if n0 > 1 && 10 != 1 || 10 == 100 && 0 <= 1 {
        case { "bcch", "efa" -> { if n0 < 3 { s0 += [2]; } } "cfe"i, "gcf" -> { s1 += "dY"i; } }
    }
    elif s0.len == n0 && n0 != 255 { if s0.len > 2 { finish F1; } else { delete s1; } }
    else { if s1.len > n0 { loop { "80 ff 62"b; } } yield Y0; yield Y1; }
}
"""
    wflags = ["-O0", "-fyield-support"]
    wr = nm.compile_source(WSRC, wflags, want_c=True)
    if wr["verdict"] == "ok":
        wm = wr["machines"]["post_optimize"]
        ww = mach.run_machk([mach.task_wf(wm)])[0]
        if ww.startswith("stuck"):
            wd = os.path.join(common.BUILD, "c10", "witness")
            Pw = cdrv.prepare(WSRC, wflags, wd)
            obs = None
            if Pw["ok"]:
                rc_, lines_, _ = cdrv.run_c(Pw["wd"], Pw["cp"].init_vals() + "\nrun 1 1 0 0\n")
                obs = [l for l in lines_ if l.strip() != "--"]
                shutil.rmtree(wd, ignore_errors=True)
            ctx.violation("stuck-ok:witness:action-only-handler-before-if",
                          "feed returns OK without consuming its chunk: a state all of whose transitions have empty symbol sets (copies of the stand-in start state append_after builds for an if statement, culled to nothing) is entered from the action-only catch handler",
                          {"program": WSRC, "flags": wflags, "input": [0], "certificate": ww, "binary": obs,
                           "broken": "certificate no_stuck_ok (hypothesis of c10_ok_consumes_all)"}, found_input=True)
        else:
            ctx.log("witness: the stuck-state finding no longer reproduces (%s)" % ww[:40])
    nviol = 0
    for r in good:
        for v in r["viol"]:
            nviol += 1
            ctx.violation("%s:%s:%s:%s" % (v["kind"], r["name"], " ".join(r["flags"]), v.get("input")),
                          "protocol check on the gcc-built parser: %s" % json.dumps(v)[:500],
                          {"program": r["src"], "flags": r["flags"], "detail": v})
            break
    skipped = collections.Counter(r["why"].split(":")[0][:40] if r["why"] else "?" for r in results if not r["ok"])
    ctx.coverage.update({
        "programs_x_option_sets": len(good), "call_histories": sum(r["runs"] for r in good), "calls_checked": sum(r["calls"] for r in good),
        "certificates": dict(ncert), "skipped": dict(skipped), "disagreements": nviol,
        "checker_cmd": "coqc coq/Props/C10.v ; ocaml/machk wf ; gcc-built parsers vs ocaml/crun on call histories",
        "rule": "histories: random chunkings of machine-walk inputs with injected errors, calls continued after FAIL/DONE/finish codes and after each yield, end() where supported; indirect start pointer so that *start is observed after every call",
    })
    ctx.samples += [{"program": r["name"], "flags": r["flags"], "histories": r["runs"], "calls": r["calls"]} for r in good[::max(1, len(good) // 8)]][:10]
    ctx.trusted += ["gcc and the C semantics of the emitted text", "harness/export.py, harness/cdrv.py", "extraction (ExtrOcamlBasic) of CSkel.Run and of the certificate checkers"]
    ctx.assumptions += ["'strict-done only postpones DONE' is covered by the call-by-call agreement with the model, whose immediate_done mirrors the flag; it is not a separate theorem"]
