"""C11 - every accepted program compiles cleanly in every option combination.

A. api_exact (proof, Tie 1): translator/header2coq.py regenerates coq/Gen/GApi.v (which declaration is emitted under
   which flags) from generate_header / generate_source of the current /repo/nmfu.py; coq/Api/ApiProps.v proves that for
   every flag vector the declared API is the documented one, that header and source agree, that guards balance.
   Tie per compilation: the symbols scraped from the real .h/.c equal the evaluation of that same table (evaluated in
   Python from the very table the translator produced) and the documented API.
B. labels_resolve (proof over a hand mirror, Tie 2): coq/Api/Labels.v.  Tie per compilation: (i) directly on the text, every
   goto of feed()/end() has exactly one label in its function; (ii) the scraped goto / label sequences equal the model's
   prediction computed from the compiler's DFA (Python mirror on every compilation, the Coq definitions under vm_compute
   on a sample).
C. compilation correspondence (what no theorem carries): corpus + generated programs x a covering array of option
   combinations, gcc -std=c99 / -std=c11 -Wall -Werror -Wno-unused-label, the header alone as C and as C++, and a client
   that calls exactly the documented API and links against the object file.
"""
import os, sys, re, json, shutil, random, itertools, collections, subprocess, time
import common
from common import COQ, BUILD, VERIF, sh

LEVEL = "proof"
sys.path.insert(0, os.path.join(VERIF, "translator"))
WORK = os.path.join(BUILD, "c11")
PN = "prog"
COQ_FILES = ["Api/ApiSpec.v", "Gen/GApi.v", "Api/ApiProps.v", "Api/Labels.v"]
THEOREMS = ["c11_api_exact", "c11_api_exact_iff", "c11_header_defines_what_source_defines", "c11_guards_balanced",
            "c11_hook_members_inside_struct", "c11_includes_exact", "c11_labels_resolve"]


# ---------------------------------------------------------------------------
# Tie 1: regeneration
# ---------------------------------------------------------------------------
def regenerate(ctx):
    import header2coq
    try:
        text = header2coq.generate(os.path.join(common.REPO, "nmfu.py"))
    except header2coq.Unsupported as e:
        return str(e)
    common.write_if_changed(os.path.join(COQ, "Gen", "GApi.v"), text)
    return None


def vo(rel):
    return os.path.join(COQ, rel[:-2] + ".vo")


def mtime(p):
    try:
        return os.path.getmtime(p)
    except OSError:
        return -1.0


def build(ctx):
    """coqc the files of this property in dependency order (only what is stale); returns (failed file or None, output, props output)"""
    with common.Lock("coq"):
        rebuilt = False
        for rel in COQ_FILES:
            src = os.path.join(COQ, rel)
            stale = rebuilt or mtime(vo(rel)) < mtime(src)
            if rel == "Api/Labels.v":
                stale = mtime(vo(rel)) < mtime(src)        # independent of the generated table
            if stale:
                rc, out = sh(["coqc", "-Q", ".", "NV", rel], cwd=COQ, timeout=900)
                if rc != 0:
                    sh(["rm", "-f", vo(rel)])
                    return rel, out, None
                if rel != "Api/Labels.v":
                    rebuilt = True
        rc, out = sh(["coqc", "-Q", ".", "NV", "Props/C11.v"], cwd=COQ, timeout=900)
        if rc != 0:
            return "Props/C11.v", out, out
        return None, "", out


def theorem_at(path, line):
    name = None
    for n, l in enumerate(open(path), 1):
        m = re.match(r"\s*(Theorem|Lemma|Example|Corollary)\s+(\w+)", l)
        if m:
            name = m.group(2)
        if n >= line:
            break
    return name


# ---------------------------------------------------------------------------
# the documented API (Python mirror of Api/ApiSpec.documented; used for the ties and for the client)
# ---------------------------------------------------------------------------
SIG = {"start": "{pn}_result_t({pn}_state_t*)", "feed_dir": "{pn}_result_t(const uint8_t*,const uint8_t*,{pn}_state_t*)",
       "feed_ind": "{pn}_result_t(const uint8_t**,const uint8_t*,{pn}_state_t*)", "end": "{pn}_result_t({pn}_state_t*)",
       "free": "void({pn}_state_t*)", "hook": "void({pn}_state_t*,uint8_t)"}


def documented(fv, hooks, fcs, ycs):
    out = [("fun", "start", SIG["start"]), ("fun", "feed", SIG["feed_ind"] if fv["INDIRECT_START_PTR"] else SIG["feed_dir"])]
    if fv["EOF_SUPPORT"]:
        out.append(("fun", "end", SIG["end"]))
    if fv["DYNAMIC_MEMORY"]:
        out.append(("fun", "free", SIG["free"]))
    if fv["HOOK_GLOBAL"]:
        out += [("hookproto", h, SIG["hook"]) for h in hooks]
    if fv["HOOK_PER_STATE"]:
        out += [("hookmember", h) for h in hooks]
    out += [("enum", "OK"), ("enum", "FAIL"), ("enum", "DONE")] + [("enum", "FINISH_" + c) for c in fcs] + [("enum", "YIELD_" + c) for c in ycs]
    return out


def documented_defs(fv):
    return [("def",) + d[1:] for d in documented(fv, [], [], []) if d[0] == "fun"]


# ---------------------------------------------------------------------------
# scraping the real text
# ---------------------------------------------------------------------------
def _sig(ret, params):
    import header2coq
    s = header2coq.normalize_sig(ret, params)
    return re.sub(r"\b%s_" % PN, "{pn}_", s)


FN_RE = re.compile(r"^\s*((?:const\s+|struct\s+|enum\s+|unsigned\s+)*\w+(?:\s*\*+)?)\s*\b%s_(\w+)\s*\(([^()]*)\)\s*(;|\{)\s*$" % PN)


def scrape_header(h):
    out, where = [], None
    for line in h.splitlines():
        ls = line.strip()
        if where is None:
            if re.match(r"struct %s_state\s*\{" % PN, ls):
                where = "struct"
                continue
            if re.match(r"enum (__attribute__\(\(packed\)\) )?%s_result\s*\{" % PN, ls):
                where = "enum"
                continue
            m = FN_RE.match(line)
            if m and m.group(4) == ";" and not ls.startswith("typedef"):
                name = m.group(2)
                if name.endswith("_hook"):
                    out.append(("hookproto", name[:-5], _sig(m.group(1), m.group(3))))
                else:
                    out.append(("fun", name, _sig(m.group(1), m.group(3))))
            m = re.match(r"#include <([\w./]+)>", ls)
            if m:
                out.append(("include", m.group(1)))
        elif ls == "};":
            where = None
        elif where == "struct":
            m = re.fullmatch(r"%s_hook_t (\w+)_hook;" % PN, ls)
            if m:
                out.append(("hookmember", m.group(1)))
        elif where == "enum":
            m = re.fullmatch(r"%s_(\w+),?" % PN.upper(), ls)
            if m:
                out.append(("enum", m.group(1)))
    return out


def scrape_source_defs(c):
    out = []
    for line in c.splitlines():
        if line[:1] in (" ", "\t", "#", "/", ""):
            continue
        m = FN_RE.match(line)
        if m and m.group(4) == "{":
            out.append(("def", m.group(2), _sig(m.group(1), m.group(3))))
        m = re.match(r"#include <([\w./]+)>", line)
    for m in re.finditer(r"^#include <([\w./]+)>", c, re.M):
        out.append(("include", m.group(1)))
    return out


def split_functions(c):
    """name -> body text of the functions defined at column 0 of the .c"""
    fns, cur, name = {}, None, None
    for line in c.splitlines():
        if cur is None:
            m = FN_RE.match(line) if line[:1] not in (" ", "\t", "#", "/", "") else None
            if m and m.group(4) == "{":
                name, cur = m.group(2), []
        elif line == "}":
            fns[name] = "\n".join(cur)
            cur = None
        else:
            cur.append(line)
    return fns


def scrape_labels(body, tidmap):
    gotos, labels = [], []
    def conv(nm_):
        if nm_ == "repeatswitch":
            return ("repeat",)
        m = re.fullmatch(r"(fall|jpto)_(\d+)", nm_)
        if m:
            return (m.group(1), int(m.group(2)))
        m = re.fullmatch(r"skipaction_(\d+)", nm_)
        if m:
            return ("skip", tidmap.get(int(m.group(1)), -int(m.group(1))))
        return ("unknown", nm_)
    for line in body.splitlines():
        ls = line.strip()
        if ls.startswith("//"):
            continue
        for m in re.finditer(r"\bgoto\s+(\w+)\s*;", ls):
            gotos.append(conv(m.group(1)))
        m = re.fullmatch(r"(\w+):", ls)
        if m and m.group(1) != "default":
            labels.append(conv(m.group(1)))
    return gotos, labels


# ---------------------------------------------------------------------------
# Tie 2: the label model (Python mirror of coq/Api/Labels.v, definition by definition)
# ---------------------------------------------------------------------------
def override_none(a):
    return True if a[0] == "other" else (all(override_none(x) for x in a[1]) if a[0] == "cond" else False)


def wdj(strict, excl_fall, t):
    return (excl_fall or not t["fall"]) and not (t["tgt_acc"] and not strict) and all(override_none(a) for a in t["acts"])


def immediate_done(strict, t):
    return t["tgt_acc"] and not strict and t["tgt_all_err"]


def action_gotos(tid, a):
    k = a[0]
    if k == "append":
        return [("repeat",)]
    if k == "break":
        return [g for x in a[1] for g in action_gotos(tid, x)] + [("skip", tid)]
    if k == "cond":
        return [g for x in a[1] for g in action_gotos(tid, x)]
    return []


def has_skip(a):
    return True if a[0] == "break" else (any(has_skip(x) for x in a[1]) if a[0] == "cond" else False)


def trans_gotos(strict, from_end, t):
    out = [g for a in t["acts"] for g in action_gotos(t["tid"], a)]
    if t["fall"]:
        if t["tgt"] is not None:
            out.append(("fall", t["tgt"]) if wdj(strict, True, t) else ("repeat",))
    elif immediate_done(strict, t):
        pass
    elif from_end:
        pass
    elif t["tgt"] is not None:
        out.append(("jpto", t["tgt"]) if wdj(strict, False, t) else ("repeat",))
    return out


def trans_labels(t):
    return [("skip", t["tid"])] if any(has_skip(a) for a in t["acts"]) else []


def emitted_feed(s):
    if s["kind"] == "fail":
        return []
    if s["kind"] == "cond":
        return s["ts"]
    return [t for t in s["ts"] if not t["is_else"] and t["has_byte"]] + [t for t in s["ts"] if t["is_else"]]


def emitted_end(s):
    if s["kind"] == "fail":
        return []
    if s["kind"] == "cond":
        return s["ts"]
    return [t for t in s["ts"] if t["is_end"]]


def model_labels(strict, m):
    allt = [t for s in m for t in s["ts"]]
    into = collections.defaultdict(list)
    for t in allt:
        if t["tgt"] is not None:
            into[t["tgt"]].append(t)
    fl, el = [("repeat",)], [("repeat",)]
    for n, s in enumerate(m):
        if any(t["fall"] and wdj(strict, True, t) for t in into[n]):
            fl.append(("fall", n))
        if any(wdj(strict, False, t) for t in into[n]):
            fl.append(("jpto", n))
        fl += [l for t in emitted_feed(s) for l in trans_labels(t)]
        if any(t["fall"] for t in into[n]):
            el.append(("fall", n))
        el += [l for t in emitted_end(s) for l in trans_labels(t)]
    fg = [g for s in m for t in emitted_feed(s) for g in trans_gotos(strict, False, t)]
    eg = [g for s in m for t in emitted_end(s) for g in trans_gotos(strict, True, t)]
    return {"feed_gotos": fg, "feed_labels": fl, "end_gotos": eg, "end_labels": el}


def machine_desc(nmfu, dctx):
    """the model's input, read off the compiler's objects (every state of dfa.states, every transition)"""
    cctx = nmfu.CodegenCtx(dctx, PN)
    dfa = cctx.dfa
    states = dfa.states
    index = {}
    for i, s in enumerate(states):
        index.setdefault(id(s), i)
    acc = set(id(s) for s in dfa.accepting_states)
    tidmap, m, notes = {}, [], []

    def act(a):
        if isinstance(a, nmfu.BreakAction):
            return ["break", [act(x) for x in a.replacement_actions()]]
        if isinstance(a, nmfu.ConditionalAction):
            return ["cond", [act(x) for c in a.conditions for x in a.sub_actions[c]]]
        if isinstance(a, (nmfu.AppendTo, nmfu.AppendCharTo)):
            return ["append"]
        if isinstance(a, nmfu.FinishAction):
            return ["finish"]
        return ["other"]

    for s in states:
        if s is cctx.generic_fail_state:
            kind = "fail"
        elif isinstance(s, nmfu.DFConditionPoint):
            kind = "cond"
        else:
            kind = "normal"
        else_t = end_t = None
        if kind == "normal":
            else_t = next(s.all_transitions_for((nmfu.DFTransition.Else,)), None)
            end_t = s[nmfu.DFTransition.End]
        ts = []
        for t in s.all_transitions():
            if id(t) in tidmap:
                notes.append("transition object occurs twice")
            tid = tidmap.setdefault(id(t), len(tidmap))
            tg = t.target
            acts = [act(a) for a in t.actions]
            for a, ma in zip(t.actions, acts):       # the mirror's override rule against the real method
                if (a.get_target_override_mode() == nmfu.ActionOverrideMode.NONE) != override_none(ma):
                    notes.append("override mode of %r differs from the mirror" % type(a).__name__)
            ts.append({"tid": tid, "tgt": index.get(id(tg)) if tg is not None else None, "fall": bool(t.is_fallthrough),
                       "tgt_acc": tg is not None and id(tg) in acc,
                       "tgt_all_err": tg is not None and all(x.error_handling for x in tg.transitions),
                       "has_byte": any(v is not nmfu.DFTransition.End for v in t.on_values),
                       "is_else": t is else_t, "is_end": t is end_t, "acts": acts})
        m.append({"kind": kind, "ts": ts})
    if len(set(id(s) for s in states)) != len(states):
        notes.append("state object occurs twice in dfa.states")
    return m, tidmap, notes


# ---- Coq terms of a machine (for the vm_compute sample) ----
def coq_action(a):
    k = a[0]
    if k == "other": return "AOther"
    if k == "finish": return "AFinish"
    if k == "append": return "AAppend"
    return "(%s [%s])" % ("ABreak" if k == "break" else "ACond", "; ".join(coq_action(x) for x in a[1]))


def coq_bool(b):
    return "true" if b else "false"


def coq_machine(m):
    out = []
    for s in m:
        ts = []
        for t in s["ts"]:
            ts.append("T %d %s %s %s %s %s %s %s [%s]" % (t["tid"], "None" if t["tgt"] is None else "(Some %d)" % t["tgt"], coq_bool(t["fall"]),
                      coq_bool(t["tgt_acc"]), coq_bool(t["tgt_all_err"]), coq_bool(t["has_byte"]), coq_bool(t["is_else"]), coq_bool(t["is_end"]),
                      "; ".join(coq_action(a) for a in t["acts"])))
        out.append("S %s [%s]" % ({"normal": "KNormal", "cond": "KCond", "fail": "KFail"}[s["kind"]], ";\n    ".join(ts)))
    return "[" + ";\n  ".join(out) + "]"


def coq_labels(ls):
    def one(l):
        return {"repeat": "LRepeat", "fall": "LFall %d", "jpto": "LJpto %d", "skip": "LSkip %d"}[l[0]] % tuple(l[1:])
    return "[" + "; ".join(one(l) for l in ls) + "]"


# ---------------------------------------------------------------------------
# the client: calls exactly the documented API of one row
# ---------------------------------------------------------------------------
def client_source(fv, hooks, fcs, ycs):
    L = ['#include "%s.h"' % PN, "", "static unsigned hook_calls;"]
    for h in hooks:
        if fv["HOOK_GLOBAL"]:
            L.append("void %s_%s_hook(%s_state_t *state, uint8_t inval) { (void)state; hook_calls += inval; }" % (PN, h, PN))
        elif fv["HOOK_PER_STATE"]:
            L.append("static void my_%s(%s_state_t *state, uint8_t inval) { (void)state; hook_calls += inval; }" % (h, PN))
    L += ["", "int main(void) {", "    %s_state_t st;" % PN, "    static const uint8_t buf[4] = { 'a', 'b', 'c', 'd' };", "    const uint8_t *p = buf;",
          "    int code = 0;"]
    if fv["INCLUDE_USER_PTR"]:
        L.append("    st.userptr = &code;")
    if fv["HOOK_PER_STATE"] and not fv["HOOK_GLOBAL"]:
        for h in hooks:
            L.append("    st.%s_hook = my_%s;" % (h, h))
    L.append("    %s_result_t r = %s_start(&st);" % (PN, PN))
    L.append("    if (r == %s_OK) r = %s_feed(%s, buf + 4, &st);" % (PN.upper(), PN, "&p" if fv["INDIRECT_START_PTR"] else "p"))
    if fv["EOF_SUPPORT"]:
        L.append("    if (r == %s_OK) r = %s_end(&st);" % (PN.upper(), PN))
    L.append("    switch (r) {")
    for i, e in enumerate(["OK", "FAIL", "DONE"] + ["FINISH_" + c for c in fcs] + ["YIELD_" + c for c in ycs]):
        L.append("    case %s_%s: code = %d; break;" % (PN.upper(), e, i + 1))
    L.append("    }")
    if fv["DYNAMIC_MEMORY"]:
        L.append("    %s_free(&st);" % PN)
    L += ["    return code + (int)(hook_calls & 1u) + (int)(p - buf);", "}", ""]
    return "\n".join(L)


LIBC_OK = {"malloc", "calloc", "realloc", "free", "memcpy", "memset", "strlen", "strcpy", "strncpy", "memmove", "memcmp", "abort", "__stack_chk_fail", "_GLOBAL_OFFSET_TABLE_"}


def diag_class(out):
    """(class, where) of the first diagnostic of a compiler / linker output"""
    where, cls = None, None
    fn = None
    for line in out.splitlines():
        line = line.replace("\u2018", "'").replace("\u2019", "'")
        m = re.search(r"In function '(\w+)'", line)
        if m:
            fn = m.group(1)
        m = re.match(r"(?:.*?/)?([\w.]+):\d+(?::\d+)?: (?:fatal )?(error|warning): (.*)", line)
        if m:
            f, msg = m.group(1), m.group(3)
            if f == PN + ".h":
                where = "header"
            elif f.startswith("client"):
                where = "client"
            elif fn and fn.startswith(PN + "_"):
                where = fn[len(PN) + 1:]
            else:
                where = f
            for pat, name in [(r"'(\w+)' undeclared", "undeclared-%s"), (r"implicit declaration of function '(\w+)'", "implicit-declaration-%s"),
                              (r"unused variable", "unused-variable"), (r"label '(\w+?)_?\d*' used but not defined", "label-undefined-%s"),
                              (r"duplicate label '(\w+?)_?\d*'", "label-duplicate-%s"), (r"enumeration value '(\w+)' not handled", "enumerator-not-handled-%s"),
                              (r"has no member named '(\w+)'", "no-member-%s"), (r"unknown type name '(\w+)'", "unknown-type-%s"),
                              (r"conflicting types for '(\w+)'", "conflicting-types-%s")]:
                mm = re.search(pat, msg)
                if mm:
                    arg = re.sub(r"\d+", "N", re.sub(r"(?i)^%s_" % PN, "", mm.group(1))) if mm.groups() else ""
                    cls = name % arg if "%s" in name else name
                    break
            if cls is None:
                mm = re.search(r"\[-W(?:error=)?([\w-]+)\]", msg)
                cls = mm.group(1) if mm else "-".join(re.sub(r"'[^']*'", "", msg).split()[:4]).lower()
            return cls, where
        m = re.search(r"undefined reference to `(\w+)'", line)
        if m:
            return "undefined-reference-" + re.sub(r"\d+", "N", re.sub(r"^%s_" % PN, "", m.group(1))), "link"
    return "no-diagnostic", "?"


def run_cmd(cmd, cwd):
    try:
        p = subprocess.run(cmd, cwd=cwd, stdout=subprocess.PIPE, stderr=subprocess.STDOUT, timeout=300, text=True, errors="replace")
        return p.returncode, p.stdout
    except subprocess.TimeoutExpired:
        return 124, "[timeout]"


STD_CMDS = [
    ("c99", ["gcc", "-std=c99", "-Wall", "-Werror", "-Wno-unused-label", "-c", PN + ".c", "-o", PN + ".o"]),
    ("c11-O2", ["gcc", "-std=c11", "-O2", "-Wall", "-Werror", "-Wno-unused-label", "-c", PN + ".c", "-o", PN + "_c11.o"]),
    ("header-c", ["gcc", "-std=c99", "-Wall", "-Werror", "-fsyntax-only", "hdr_only.c"]),
    ("header-c++", ["g++", "-std=c++11", "-Wall", "-Werror", "-fsyntax-only", "hdr_only.cpp"]),
    ("client", ["gcc", "-std=c99", "-Wall", "-Werror", "client.c", PN + ".o", "-o", "client"]),
]


def decls_from_source(src):
    """hooks / finish codes / yield codes as the program text declares them (independent of the compiler's lists)"""
    txt = re.sub(r"//[^\n]*", "", src)
    hooks = re.findall(r"(?m)^\s*hook\s+(\w+)\s*;", txt)
    fcs = [c.strip() for m in re.findall(r"(?m)^\s*finishcode\s+([\w\s,]+);", txt) for c in m.split(",")]
    ycs = [c.strip() for m in re.findall(r"(?m)^\s*yieldcode\s+([\w\s,]+);", txt) for c in m.split(",")]
    return hooks, fcs, ycs


def job(a):
    """one (program, option row): compile with the current nmfu, tie A, tie B, gcc/g++; runs in a worker process"""
    import nmfu, nm, header2coq
    wd = a["wd"]
    res = {"idx": a["idx"], "name": a["name"], "flags": a["flags"], "fail": [], "api": [], "label": [], "drift": [], "wd": wd}
    r = nm.compile_source(a["src"], a["flags"], want_c=True, name=PN, export_machines=False, time_limit=120)
    res["verdict"], res["message"] = r["verdict"], r["message"][:200]
    if r["verdict"] == "internal":
        tb = r.get("traceback", "")
        if "in generate_source" in tb or "in generate_header" in tb:
            frames = re.findall(r'File "[^"]*nmfu\.py", line \d+, in (\w+)', tb)
            res["codegen_crash"] = {"exception": r["message"].split(":")[0], "function": frames[-1] if frames else "?", "traceback": tb[-1500:]}
    if r["verdict"] != "ok":
        return res
    fv = {f.name: bool(nmfu.ProgramData.do(f)) for f in nmfu.ProgramFlag}
    res["fv"] = {k: v for k, v in fv.items() if not k.startswith(("VERBOSE", "DEBUG"))}
    dctx = r["dctx"]
    hooks, fcs, ycs = decls_from_source(a["src"])
    if (hooks, fcs, ycs) != (list(dctx.hooks), list(dctx.finish_codes), list(dctx.yield_codes)):
        res["decl_note"] = "declarations read from the text %r differ from the compiler's lists %r" % ((hooks, fcs, ycs), (dctx.hooks, dctx.finish_codes, dctx.yield_codes))
        hooks, fcs, ycs = list(dctx.hooks), list(dctx.finish_codes), list(dctx.yield_codes)
    res["decls"] = [hooks, fcs, ycs]
    h, c = r["h"], r["c"]
    shutil.rmtree(wd, ignore_errors=True)
    os.makedirs(wd, exist_ok=True)
    open(os.path.join(wd, PN + ".h"), "w").write(h)
    open(os.path.join(wd, PN + ".c"), "w").write(c)
    open(os.path.join(wd, PN + ".nmfu"), "w").write(a["src"])
    open(os.path.join(wd, "hdr_only.c"), "w").write('#include "%s.h"\nint main(void) { return 0; }\n' % PN)
    open(os.path.join(wd, "hdr_only.cpp"), "w").write('#include "%s.h"\nint main() { return 0; }\n' % PN)
    open(os.path.join(wd, "client.c"), "w").write(client_source(fv, hooks, fcs, ycs))
    # ---- tie A: scraped declarations vs the regenerated table vs the documentation
    table = a.get("table")
    got_h = sorted(x for x in scrape_header(h) if x[0] != "include")
    got_c = sorted(x for x in scrape_source_defs(c) if x[0] == "def")
    doc = sorted(documented(fv, hooks, fcs, ycs))
    docdef = sorted(documented_defs(fv))
    if got_h != doc:
        res["api"].append(("header-vs-documented", sorted(set(got_h) ^ set(doc))[:6]))
    if got_c != docdef:
        res["api"].append(("source-vs-documented", sorted(set(got_c) ^ set(docdef))[:6]))
    if table is not None:
        th = sorted(x for x in header2coq.declared(table["header"], fv, hooks, fcs, ycs) if x[0] != "include")
        tc = sorted(x for x in header2coq.declared(table["source"], fv, hooks, fcs, ycs) if x[0] == "def")
        if th != got_h:
            res["api"].append(("header-vs-table", sorted(set(got_h) ^ set(th))[:6]))
        if tc != got_c:
            res["api"].append(("source-vs-table", sorted(set(got_c) ^ set(tc))[:6]))
        inc_t = sorted(x[1] for x in header2coq.declared(table["source"], fv, hooks, fcs, ycs) if x[0] == "include")
        inc_c = sorted(x[1] for x in scrape_source_defs(c) if x[0] == "include")
        if inc_t != inc_c:
            res["api"].append(("includes-vs-table", [inc_c, inc_t]))
    # ---- tie B: labels
    strict = fv["STRICT_DONE_TOKEN_GENERATION"]
    m, tidmap, notes = machine_desc(nmfu, dctx)
    res["label_notes"] = notes
    pred = model_labels(strict, m)
    fns = split_functions(c)
    res["n_states"], res["n_trans"] = len(m), sum(len(s["ts"]) for s in m)
    res["n_gotos"] = 0
    for fn in ("feed", "end"):
        if fn not in fns:
            continue
        gotos, labels = scrape_labels(fns[fn], tidmap)
        res["n_gotos"] += len(gotos)
        cnt = collections.Counter(labels)
        for g in gotos:                       # (i) directly on the text
            if cnt[g] != 1:
                res["label"].append((fn, "goto %r has %d labels in %s()" % (g, cnt[g], fn)))
                break
        dup = [l for l, n in cnt.items() if n > 1]
        if dup:
            res["label"].append((fn, "label %r is defined %d times in %s()" % (dup[0], cnt[dup[0]], fn)))
        if gotos != pred[fn + "_gotos"] or labels != pred[fn + "_labels"]:      # (ii) text vs model
            res["drift"].append((fn, "gotos" if gotos != pred[fn + "_gotos"] else "labels"))
    for fn in ("start", "free"):
        if fn in fns:
            gotos, labels = scrape_labels(fns[fn], tidmap)
            if gotos or labels:
                res["label"].append((fn, "%s() contains gotos/labels %r %r" % (fn, gotos[:2], labels[:2])))
    if a.get("want_machine"):
        res["machine"] = {"m": m, "strict": strict, "pred": pred}
        res["scraped"] = {"header": got_h, "source": got_c}
    # ---- C: the compilers
    res["cmds"] = 0
    failed_obj = False
    for tag, cmd in STD_CMDS:
        if tag == "client" and failed_obj:
            continue
        rc, out = run_cmd(cmd, wd)
        res["cmds"] += 1
        if rc != 0:
            if tag == "c99":
                failed_obj = True
            cls, where = diag_class(out)
            res["fail"].append({"stage": tag, "cmd": " ".join(cmd), "class": cls, "where": where, "output": "\n".join(out.splitlines()[:15])})
    if not failed_obj:
        rc, out = run_cmd(["nm", "-g", PN + ".o"], wd)
        defined = sorted(l.split()[-1] for l in out.splitlines() if len(l.split()) == 3 and l.split()[1] in "TDBRC")
        undefined = sorted(l.split()[-1] for l in out.splitlines() if len(l.split()) == 2 and l.split()[0] == "U")
        want = sorted("%s_%s" % (PN, d[1]) for d in docdef)
        allowed = set(LIBC_OK) | (set("%s_%s_hook" % (PN, x) for x in hooks) if fv["HOOK_GLOBAL"] else set())
        if defined != want:
            res["fail"].append({"stage": "symbols", "cmd": "nm -g prog.o", "class": "exported-symbols-differ", "where": "object",
                                "output": "defined %r, documented %r" % (defined, want)})
        extra = [u for u in undefined if u not in allowed]
        if extra:
            res["fail"].append({"stage": "symbols", "cmd": "nm -g prog.o", "class": "undefined-symbol-" + re.sub(r"\d+", "N", extra[0]), "where": "object",
                                "output": "undefined %r" % extra})
    if not res["fail"] and not res["api"] and not res["label"] and not a.get("keep"):
        shutil.rmtree(wd, ignore_errors=True)
    return res


# ---------------------------------------------------------------------------
# programs
# ---------------------------------------------------------------------------
FEATURE_PROGRAMS = {
    # every output type with and without defaults, every action kind, conditional START actions with a hook call
    "start-cond-hook": """// tags: start-action start-conditional start-conditional-hook-call
out bool verbose = true;
out int count = 0;
hook began;
parser {
    if verbose {
        began();
        count = 1;
    }
    "hello";
    count = 2;
}
""",
    "start-actions-all": """out int{unsigned, size 1} a = 3;
out int{signed, size 8} big;
out bool b;
out enum{RED,GREEN} col;
out str[6] s = "ab";
out unterminated str[4] u;
out raw{uint32_t} r;
hook h0;
hook h1;
finishcode EARLY;
parser {
    a = [a + 1];
    b = true;
    col = GREEN;
    s = "xy";
    s += [65];
    u += [66];
    delete u;
    h0();
    if a == 4 { h1(); big = [a * 2]; } elif b { h0(); } else { col = RED; }
    if a == 200 { finish EARLY; }
    r += /..../;
    "z";
    s += /[a-c]+/;
    ";";
    h1();
}
""",
    "types-int": """out int{signed, size 1} i8 = 1;
out int{unsigned, size 1} u8;
out int{signed, size 2} i16;
out int{unsigned, size 2} u16 = 7;
out int{signed, size 4} i32;
out int{unsigned, size 4} u32;
out int{signed, size 8} i64;
out int{unsigned, size 8} u64;
out int plain;
parser {
    i8 = [$last]; "a"; u8 = [i8 + 1]; "b"; i16 = [u8 * 3]; u16 = [i16 - 1]; "c";
    i32 = [u16 << 2]; u32 = [i32 | 5]; "d"; i64 = [u32 & 255]; u64 = [i64 ^ 1]; plain = [u64 % 7];
    case { "e" -> { plain = [plain / 2]; } else -> { plain = 0; } }
}
""",
    "loop-break-try": """out str[4] s;
out int n = 0;
hook ovf;
finishcode LONG, BAD;
parser {
    loop outer {
        try {
            loop {
                case {
                    ";" -> { break; }
                    "!" -> { break outer; }
                    /[a-z]/ -> { s += [$last]; n = [n + 1]; if n > 9 { break outer; } }
                }
            }
            delete s;
        }
        catch (outofspace) { ovf(); finish LONG; }
    }
    try { "end"; } catch (nomatch) { finish BAD; }
    optional { " "; }
    foreach { /\\d+/; } do { n = [n * 10 + ($last - '0')]; }
    "\\n";
}
""",
    "eof-wait-end": """out int lines = 0;
out bool seen = false;
hook done;
parser {
    loop {
        case {
            end -> { break; }
            "\\n" -> { lines = [lines + 1]; }
            else -> { seen = true; }
        }
    }
    done();
}
""",
    "yield-greedy": """out str[16] tok;
yieldcode WORD, NUM, SEMI;
parser {
    loop {
        greedy case {
            /[a-z]+/ -> { yield WORD; }
            /[0-9]+/ -> { yield NUM; }
            ";" -> { yield SEMI; }
            prio 2 "end" -> { break; }
        }
    }
}
""",
    "macro-wait-binary": """out str[8] key;
out int v = 0;
hook got;
macro skip_to(match m) { wait m; }
macro kv(out k, hook h) { k += /\\w+/; "="; h(); }
parser {
    skip_to("<<");
    kv(key, got);
    "01 02"b;
    b/ff(00|01)/;
    "AbC"i;
    v = [key.len + key[0]];
    " ";
}
""",
}
FEATURE_FLAGS = {"eof-wait-end": ["-feof-support"], "yield-greedy": ["-fyield-support"]}


def start_prefix(rng, p):
    """statements placed at the very start of the parser body, before any match: START actions, plain and conditional"""
    ints = [o["name"] for o in p["outs"] if o["type"] == "int"]
    strs = [o for o in p["outs"] if o["type"] == "str"]
    out = []
    def plain():
        opts = []
        if ints: opts.append(("assign", rng.choice(ints), ("num", rng.choice([0, 1, 5]))))
        if p["hooks"]: opts.append(("hook", rng.choice(p["hooks"])))
        if strs:
            o = rng.choice(strs)
            opts.append(("appc", o["name"], ("num", 65)))
            opts.append(("delete", o["name"]))
            if o["size"] - (1 if o.get("null", True) else 0) >= 1:
                opts.append(("assigns", o["name"], b"q"))
        return rng.choice(opts) if opts else None
    for _ in range(rng.randint(0, 2)):
        a = plain()
        if a: out.append(a)
    if ints and rng.random() < 0.8:
        body = [x for x in (plain(), plain()) if x]
        if p["hooks"] and rng.random() < 0.7:
            body.insert(0, ("hook", rng.choice(p["hooks"])))
        if p["finish_codes"] and rng.random() < 0.2:
            body.append(("finish", rng.choice(p["finish_codes"])))
        els = [x for x in (plain(),) if x] if rng.random() < 0.4 else None
        if body:
            out.append(("if", [(("bin", rng.choice(["==", "!=", "<"]), ("var", rng.choice(ints)), ("num", rng.choice([0, 1, 7]))), body)], els or None))
    return out


def text_features(src):
    pre = set(w for m in re.findall(r"// tags:([^\n]*)", src) for w in m.split())
    t = re.sub(r"//[^\n]*", "", src)
    t = re.sub(r'"(?:[^"\\]|\\.)*"', '""', t)
    feats = set()
    for kw, name in [(r"\bloop\b", "loop"), (r"\bgreedy\s+case\b", "greedy-case"), (r"\bcase\b", "case"), (r"\boptional\b", "optional"), (r"\btry\b", "try-catch"),
                     (r"\bnomatch\b", "catch-nomatch"), (r"\boutofspace\b", "catch-outofspace"), (r"\bforeach\b", "foreach"), (r"\bif\b", "if"), (r"\belif\b", "elif"),
                     (r"\belse\s*\{", "else"), (r"\bwait\b", "wait"), (r"\bend\b", "end"), (r"\bmacro\b", "macro"), (r"\byield\b", "yield"), (r"\bfinish\b", "finish"),
                     (r"\bbreak\b", "break"), (r"\bdelete\b", "delete"), (r"\+=\s*\[", "char-append"), (r"\+=\s*[^\[\s]", "append"), (r"\w+\s*\(\s*\)\s*;", "hook-call"),
                     (r"\w\s*=\s*\[", "assign-int"), (r'\w\s*=\s*""', "assign-str"), (r"\bout\s+bool\b", "out-bool"), (r"\bout\s+int\b", "out-int"),
                     (r"\bout\s+enum\b", "out-enum"), (r"\bout\s+str\b", "out-str"), (r"\bout\s+unterminated\s+str\b", "out-unterminated-str"), (r"\bout\s+raw\b", "out-raw"),
                     (r"\bout\s+[^;=]*=", "out-default"), (r"\$last\b", "last"), (r"\bparser\s*\{\s*(if\b|\w+\s*(=|\+=|\(\s*\)))", "start-action"),
                     (r"\bparser\s*\{\s*if\b", "start-conditional")]:
        if re.search(kw, t):
            feats.add(name)
    return feats | pre


def programs(ctx, n_generated):
    import nm, gen
    progs = []            # dict(name, src, flags (required), origin)
    for name, src in FEATURE_PROGRAMS.items():
        progs.append({"name": "feature:" + name, "src": src, "req": FEATURE_FLAGS.get(name, []), "origin": "feature"})
    for name, src, flags in nm.corpus():
        progs.append({"name": "corpus:" + name, "src": src, "req": list(flags), "origin": "corpus"})
    rng = ctx.rng
    profiles = [gen.Profile(), gen.Profile(break_=2, ifact=4, loop=3), gen.Profile(yields=True, yield_=3, gcase=1),
                gen.Profile(eof=True, wait=2), gen.Profile(big_strings=True, append=5, appc=3, assigns=2, delete=2, try_=3),
                gen.Profile(hook=4, finish=2, foreach=3, optional=3)]
    for i in range(n_generated):
        prof = profiles[i % len(profiles)]
        p, _ = gen.gen_program(rng, prof)
        tags = set()
        if rng.random() < 0.6:
            pre = start_prefix(rng, p)
            p["body"] = pre + p["body"]
            if pre:
                tags.add("start-action")
            for st in pre:
                if st[0] == "if":
                    tags.add("start-conditional")
                    if any(x[0] == "hook" for _, b in st[1] for x in b):
                        tags.add("start-conditional-hook-call")
        if i % 7 == 3:
            p["outs"].append({"type": "raw", "name": "rw", "ctype": rng.choice(["uint32_t", "uint16_t", "double"])})
            p["body"] = p["body"] + [("append", "rw", ("re", ("rep", ("any",), 2, 2)))]
        src = gen.pr_prog(p)
        req = (["-fyield-support"] if p["yield_codes"] else []) + (["-feof-support"] if prof.eof and i % 2 == 0 else [])
        progs.append({"name": "gen:%d" % i, "src": src, "req": req, "origin": "generated", "ast": p, "tags": tags})
    return progs


# ---------------------------------------------------------------------------
# failing-input search when part A no longer checks
# ---------------------------------------------------------------------------
def search_api_counterexample(ctx, broken, table):
    """enumerate the flag vectors over the flags the table and the documentation mention; report one the real compiler reaches"""
    import nmfu, nm, header2coq
    flags = sorted({l[1] for mode in ("header", "source") for r in table[mode] for l in r["guard"] if l[0] == "flag"}
                   | {"INDIRECT_START_PTR", "EOF_SUPPORT", "DYNAMIC_MEMORY", "HOOK_GLOBAL", "HOOK_PER_STATE"})
    hooks, fcs, ycs = ["h"], ["F"], []
    src = 'out str[4] s;\nhook h;\nfinishcode F;\nparser {\n    "a";\n    h();\n    s += "bc";\n    case {\n        "x" -> { finish F; }\n        "y" -> {}\n    }\n}\n'
    cands = []
    for vals in itertools.product([False, True], repeat=len(flags)):
        fv = collections.defaultdict(bool, zip(flags, vals))
        dh = sorted(x for x in header2coq.declared(table["header"], fv, hooks, fcs, ycs) if x[0] != "include")
        ds = sorted(x for x in header2coq.declared(table["source"], fv, hooks, fcs, ycs) if x[0] == "def")
        doc = sorted(documented(fv, hooks, fcs, ycs))
        if dh != doc or [d[1:] for d in ds] != [d[1:] for d in dh if d[0] == "fun"]:
            cands.append((sum(1 for f in flags if fv[f] != nmfu.ProgramFlag[f].default), dict(fv), sorted(set(dh) ^ set(doc)) or sorted(set(ds) ^ set(("def",) + d[1:] for d in dh if d[0] == "fun"))))
    cands.sort(key=lambda c: c[0])
    ctx.log("part A: %d of %d flag vectors disagree in the regenerated table" % (len(cands), 2 ** len(flags)))
    found = False
    for _, fv, diff in cands[:64]:
        words = [("-f" if fv[f] else "-fno-") + f.lower().replace("_", "-") for f in flags]
        for attempt in ([w for w, f in zip(words, flags) if fv[f] != nmfu.ProgramFlag[f].default], words):
            try:
                nmfu.ProgramData.load_commandline_flags(list(attempt) + ["x.nmfu"])
            except RuntimeError:
                continue
            real = {f: bool(nmfu.ProgramData.do(nmfu.ProgramFlag[f])) for f in flags if f in nmfu.ProgramFlag.__members__}
            if any(real.get(f) != fv[f] for f in flags):
                continue
            r = nm.compile_source(src, attempt, want_c=True, name=PN, export_machines=False)
            if r["verdict"] != "ok":
                continue
            fvr = {f.name: bool(nmfu.ProgramData.do(f)) for f in nmfu.ProgramFlag}
            got = sorted(x for x in scrape_header(r["h"]) if x[0] != "include")
            gotc = sorted(x for x in scrape_source_defs(r["c"]) if x[0] == "def")
            doc = sorted(documented(fvr, hooks, fcs, ycs))
            if got != doc or [d[1:] for d in gotc] != [d[1:] for d in got if d[0] == "fun"]:
                d1 = sorted(set(got) ^ set(doc))
                what = "with %s the header declares %r and the source defines %r, documented is %r" % (
                    " ".join(attempt), [d[1] for d in got if d[0] == "fun"], [d[1] for d in gotc], [d[1] for d in doc if d[0] == "fun"])
                key = "api:%s:%s" % ("+".join(sorted(w[2:] for w in attempt if not w.startswith("-fno-"))) or "default",
                                      ",".join("%s-%s" % (d[0], d[1]) for d in (d1 or sorted(set(gotc) ^ set(("def",) + d[1:] for d in got if d[0] == "fun")))[:3]))
                ctx.violation(key, what, {"broken": broken, "program": src, "flags": attempt, "header": r["h"],
                                          "declared": got, "defined": gotc, "documented": doc, "difference": d1}, found_input=True)
                found = True
                break
        if found:
            break
    return found


# ---------------------------------------------------------------------------
# flag minimisation of a compile failure
# ---------------------------------------------------------------------------
def group_words(words):
    out, i = [], 0
    while i < len(words):
        if words[i].startswith("--") and i + 1 < len(words):
            out.append(words[i:i + 2]); i += 2
        else:
            out.append(words[i:i + 1]); i += 1
    return out


def minimise_flags(pool, prog, flags, want, table, budget=40):
    """drop option words while the same failure (a (class, where) pair, or a predicate on the job result) persists"""
    still = want if callable(want) else (lambda r: r["verdict"] == "ok" and any((f["class"], f["where"]) == want for f in r["fail"]))
    groups = group_words(flags)
    n = 0
    changed = True
    while changed and n < budget:
        changed = False
        for i in range(len(groups)):
            trial = [w for j, g in enumerate(groups) if j != i for w in g]
            n += 1
            r = pool.submit(job, {"idx": -1, "name": prog["name"], "src": prog["src"], "flags": trial, "wd": os.path.join(WORK, "min_%d" % os.getpid()),
                                  "table": table}).result()
            if still(r):
                groups = [g for j, g in enumerate(groups) if j != i]
                changed = True
                break
            if n >= budget:
                break
    # canonical form: a flag that only matters through what it implies is replaced by the implied flag
    # (-fallocate-str-space-dynamic-on-demand -> -fallocate-str-space-dynamic -> -fdynamic-memory), so that the key does not
    # depend on which row happened to expose the failure
    import nmfu
    changed = True
    while changed and n < budget + 10:
        changed = False
        for i, g in enumerate(groups):
            m = re.fullmatch(r"-f([a-z0-9-]+)", g[0]) if len(g) == 1 else None
            name = m.group(1).upper().replace("-", "_") if m and not m.group(1).startswith("no-") else None
            if name not in nmfu.ProgramFlag.__members__:
                continue
            for imp in sorted(nmfu.ProgramFlag[name].implies):
                w = "-f" + nmfu.ProgramFlag(imp).name.lower().replace("_", "-")
                trial = [x for j, gg in enumerate(groups) for x in (gg if j != i else [w])]
                n += 1
                r = pool.submit(job, {"idx": -1, "name": prog["name"], "src": prog["src"], "flags": trial, "wd": os.path.join(WORK, "min_%d" % os.getpid()), "table": table}).result()
                if still(r):
                    groups[i] = [w]
                    changed = True
                    break
            if changed:
                break
    return [w for g in groups for w in g]



# ---------------------------------------------------------------------------
# shrinking a generated program (statement deletion / hoisting of bodies on the generator's tree)
# ---------------------------------------------------------------------------
def _bodies(s):
    """[(body, rebuild)] for every statement list directly inside statement s"""
    k = s[0]
    if k == "loop":
        return [(s[2], lambda b: ("loop", s[1], b))]
    if k == "optional":
        return [(s[1], lambda b: ("optional", b))]
    if k == "case":
        return [(body, (lambda i: lambda b: ("case", [(pr, b if j == i else bd) for j, (pr, bd) in enumerate(s[1])]))(i)) for i, (_, body) in enumerate(s[1])]
    if k == "gcase":
        return [(body, (lambda i: lambda b: ("gcase", [(pq, pr, b if j == i else bd) for j, (pq, pr, bd) in enumerate(s[1])]))(i)) for i, (_, _, body) in enumerate(s[1])]
    if k == "try":
        return [(s[1], lambda b: ("try", b, s[2], s[3])), (s[3], lambda b: ("try", s[1], s[2], b))]
    if k == "foreach":
        return [(s[1], lambda b: ("foreach", b, s[2])), (s[2], lambda b: ("foreach", s[1], b))]
    if k == "if":
        out = [(body, (lambda i: lambda b: ("if", [(c, b if j == i else bd) for j, (c, bd) in enumerate(s[1])], s[2]))(i)) for i, (_, body) in enumerate(s[1])]
        if s[2] is not None:
            out.append((s[2], lambda b: ("if", s[1], b)))
        return out
    return []


def _variants(stmts):
    for i, st in enumerate(stmts):
        yield stmts[:i] + stmts[i + 1:]
        for body, rebuild in _bodies(st):
            yield stmts[:i] + list(body) + stmts[i + 1:]            # the compound replaced by one of its bodies
            for v in _variants(list(body)):
                yield stmts[:i] + [rebuild(v)] + stmts[i + 1:]
        if st[0] == "case" and len(st[1]) > 1:
            for j in range(len(st[1])):
                yield stmts[:i] + [("case", st[1][:j] + st[1][j + 1:])] + stmts[i + 1:]
        if st[0] == "if" and st[2] is not None:
            yield stmts[:i] + [("if", st[1], None)] + stmts[i + 1:]


def shrink_program(pool, prog, flags, still, table, rounds=14, width=48):
    """greedy: in each round all one-step reductions are compiled in parallel, the shortest one that still fails is kept"""
    import gen, copy
    if "ast" not in prog:
        return prog["src"]
    p = copy.deepcopy(prog["ast"])
    best = prog["src"]
    for rnd in range(rounds):
        cands = []
        for v in _variants(list(p["body"])):
            q = dict(p, body=v)
            try:
                src = gen.pr_prog(q)
            except Exception:
                continue
            cands.append((len(src), src, q))
        for key in ("outs", "hooks", "finish_codes", "yield_codes"):
            for i in range(len(p[key])):
                q = dict(p, **{key: p[key][:i] + p[key][i + 1:]})
                cands.append((len(gen.pr_prog(q)), gen.pr_prog(q), q))
        cands.sort(key=lambda c: c[0])
        cands = cands[:width]
        futs = [pool.submit(job, {"idx": -1, "name": prog["name"], "src": src, "flags": flags, "wd": os.path.join(WORK, "shr_%d_%d" % (rnd, i)), "table": table})
                for i, (_, src, _) in enumerate(cands)]
        hit = None
        for (n, src, q), f in zip(cands, futs):
            r = f.result()
            if hit is None and still(r):
                hit = (src, q)
            shutil.rmtree(r["wd"], ignore_errors=True)
        if hit is None:
            break
        best, p = hit
    return best

# ---------------------------------------------------------------------------
# run
# ---------------------------------------------------------------------------
def correspondence(ctx, table):
    import nmfu, covering
    from concurrent.futures import ProcessPoolExecutor
    quick = ctx.tier == "quick"
    shutil.rmtree(WORK, ignore_errors=True)
    os.makedirs(WORK, exist_ok=True)
    t0 = time.time()
    ca2 = covering.covering_array(nmfu, 2, ctx.seed)
    rows2 = ca2["words"]
    ca3 = None
    if not quick:
        ca3 = covering.covering_array(nmfu, 3, ctx.seed)
    ctx.log("covering arrays: pairwise %d rows (%d feasible pairs)%s, %.1fs" % (
        len(rows2), ca2["stats"]["tuples_feasible"], "" if quick else "; 3-wise %d rows (%d feasible triples)" % (len(ca3["words"]), ca3["stats"]["tuples_feasible"]),
        time.time() - t0))
    progs = programs(ctx, 60 if quick else 220)
    rng = ctx.rng
    jobs = []
    for pi, p in enumerate(progs):
        if quick:
            if p["origin"] in ("corpus", "feature"):
                k = 12
                start = (pi * 5) % len(rows2)
                rows = [rows2[(start + j) % len(rows2)] for j in range(k)]
            else:
                start = (pi * 4) % len(rows2)
                rows = [rows2[(start + j) % len(rows2)] for j in range(4)]
            rows = [[]] + rows if p["origin"] != "generated" else rows
        else:
            rows = [[]] + list(rows2)
            if p["origin"] in ("corpus", "feature"):
                rows += ca3["words"]
        for ri, row in enumerate(rows):
            flags = list(row) + list(p["req"])
            jobs.append({"idx": len(jobs), "pi": pi, "name": p["name"], "src": p["src"], "flags": flags, "row": row,
                         "wd": os.path.join(WORK, "%05d" % len(jobs)), "table": table, "want_machine": False})
    # a sample of machines is re-evaluated by the Coq definitions
    sample = set(rng.sample(range(len(jobs)), min(len(jobs), 400)))
    for j in jobs:
        j["want_machine"] = j["idx"] in sample
    ctx.log("%d programs, %d (program, option row) jobs" % (len(progs), len(jobs)))
    results = []
    pool = ProcessPoolExecutor(max_workers=common.NCPU)
    try:
        for r in pool.map(job, jobs, chunksize=4):
            results.append(r)
        summarize(ctx, pool, progs, jobs, results, table, ca2, ca3)
    finally:
        pool.shutdown()


def summarize(ctx, pool, progs, jobs, results, table, ca2, ca3):
    import nmfu, covering
    verdicts = collections.Counter(r["verdict"] for r in results)
    ok = [r for r in results if r["verdict"] == "ok"]
    ctx.log("verdicts:", dict(verdicts))
    cmds = sum(r.get("cmds", 0) for r in ok)
    # ---- compile failures
    groups = collections.OrderedDict()
    for r in ok:
        for f in r["fail"]:
            groups.setdefault((f["class"], f["where"]), []).append((r, f))
    order = [t for t, _ in STD_CMDS] + ["symbols"]
    for (cls, where), items in groups.items():
        items.sort(key=lambda rf: (order.index(rf[1]["stage"]), len(jobs[rf[0]["idx"]]["src"]), len(rf[0]["flags"])))
        r, f = items[0]
        stage = f["stage"]
        prog = progs[jobs[r["idx"]]["pi"]]
        minflags = minimise_flags(pool, prog, r["flags"], (cls, where), table)
        small = shrink_program(pool, prog, minflags, lambda q: q["verdict"] == "ok" and any((f2["class"], f2["where"]) == (cls, where) for f2 in q["fail"]), table)
        tag = "+".join(sorted(w.lstrip("-") for w in minflags)) or "default"
        if stage == "c11-O2" and not any(f2["stage"] == "c99" for f2 in r["fail"]):
            tag += "@gcc-O2"          # only gcc's flow analysis at -O2 sees it; -O0 -Wall is silent
        key = "compile:%s:%s:%s" % (cls, where, tag)
        ctx.violation(key, "%s of %s with [%s] fails: %s (%d compilations of %d programs fail this way)" % (
            f["cmd"], r["name"], " ".join(minflags), f["output"].splitlines()[0] if f["output"] else "?", len(items), len({x[0]["name"] for x in items})),
            {"program": small, "program_as_found": prog["src"], "program_name": r["name"], "flags": minflags, "flags_as_found": r["flags"], "command": f["cmd"], "stage": stage,
             "compiler_output": f["output"], "other_programs": sorted({x[0]["name"] for x in items})[:10]}, found_input=True)
    # ---- the code generator itself crashes under some option rows on a program it emits code for under others
    crashes = collections.OrderedDict()
    accepted_names = {r["name"] for r in ok}
    for r in results:
        if r.get("codegen_crash"):
            c = r["codegen_crash"]
            crashes.setdefault((c["exception"], c["function"]), []).append(r)
    for (exc, fn), items in crashes.items():
        items.sort(key=lambda r: (r["name"] not in accepted_names, len(jobs[r["idx"]]["src"]), len(r["flags"])))
        r = items[0]
        prog = progs[jobs[r["idx"]]["pi"]]
        minflags = minimise_flags(pool, prog, r["flags"], lambda q: bool(q.get("codegen_crash")) and (q["codegen_crash"]["exception"], q["codegen_crash"]["function"]) == (exc, fn), table)
        tag = "+".join(sorted(w.lstrip("-") for w in minflags)) or "default"
        small = shrink_program(pool, prog, minflags, lambda q: bool(q.get("codegen_crash")) and (q["codegen_crash"]["exception"], q["codegen_crash"]["function"]) == (exc, fn), table)
        ctx.violation("codegen-crash:%s:%s:%s" % (exc, fn, tag),
                      "the code generator raises %s in %s for %s with [%s]%s (%d compilations of %d programs)" % (
                          exc, fn, r["name"], " ".join(minflags), " although it emits code for the same program under other option rows" if r["name"] in accepted_names else "",
                          len(items), len({x["name"] for x in items})),
                      {"program": small, "program_as_found": prog["src"], "program_name": r["name"], "flags": minflags, "flags_as_found": r["flags"], "traceback": r["codegen_crash"]["traceback"],
                       "accepted_under_other_rows": r["name"] in accepted_names, "other_programs": sorted({x["name"] for x in items})[:10]}, found_input=True)
    other_internal = collections.Counter((r["name"], r["message"][:80]) for r in results if r["verdict"] == "internal" and not r.get("codegen_crash"))
    if other_internal:
        ctx.coverage["internal_errors_before_codegen"] = {"note": "compiler crashes in parsing / DFA construction: these programs are not accepted, C18's subject",
                                                          "cases": ["%s: %s (%d rows)" % (k[0], k[1], v) for k, v in other_internal.most_common(8)]}
    # ---- tie A
    apig = collections.OrderedDict()
    for r in ok:
        for kind, diff in r["api"]:
            apig.setdefault((kind, tuple(sorted(map(str, diff)))[:2]), []).append((r, diff))
    for (kind, _), items in apig.items():
        r, diff = min(items, key=lambda x: len(x[0]["flags"]))
        prog = progs[jobs[r["idx"]]["pi"]]
        on = "+".join(sorted(k.lower() for k, v in r["fv"].items() if v and k in ("EOF_SUPPORT", "DYNAMIC_MEMORY", "HOOK_GLOBAL", "HOOK_PER_STATE", "INDIRECT_START_PTR", "ALLOCATE_STR_SPACE_DYNAMIC")))
        key = "api-tie:%s:%s:%s" % (kind, on, ",".join("%s-%s" % (d[0], d[1]) for d in diff[:3]) if kind != "includes-vs-table" else "includes")
        ctx.violation(key, "%s: %s with [%s]: symmetric difference %r (%d compilations)" % (kind, r["name"], " ".join(r["flags"]), diff, len(items)),
                      {"program": prog["src"], "flags": r["flags"], "kind": kind, "difference": diff, "resolved_flags": r["fv"],
                       "header": open(os.path.join(r["wd"], PN + ".h")).read() if os.path.exists(os.path.join(r["wd"], PN + ".h")) else None}, found_input=True)
    # ---- tie B (i): text
    labg = collections.OrderedDict()
    for r in ok:
        for fn, what in r["label"]:
            labg.setdefault((fn, re.sub(r"\d+", "N", what)), []).append((r, what))
    for (fn, cls), items in labg.items():
        r, what = min(items, key=lambda x: len(jobs[x[0]["idx"]]["src"]))
        prog = progs[jobs[r["idx"]]["pi"]]
        ctx.violation("labels-text:%s:%s" % (fn, cls[:60]), "%s with [%s]: %s" % (r["name"], " ".join(r["flags"]), what),
                      {"program": prog["src"], "flags": r["flags"], "what": what}, found_input=True)
    drift = [(r["name"], r["flags"], d) for r in ok for d in r["drift"]]
    notes = collections.Counter(n for r in ok for n in r.get("label_notes", []))
    ctx.coverage["label_text_drift"] = {"compilations_with_drift": len({(n, tuple(f)) for n, f, _ in drift}), "first": [list(map(str, d)) for d in drift[:3]],
                                        "meaning": "scraped goto/label sequence differs from the model's prediction although every goto resolves in the text (diagnostic only)"}
    if notes:
        ctx.coverage["label_model_notes"] = dict(notes)
    # ---- tie B (ii) on a sample inside Coq
    coq_sample(ctx, [r for r in ok if "machine" in r])
    coq_api_sample(ctx, [r for r in ok if "scraped" in r])
    # ---- evidence
    rows_ok = [jobs[r["idx"]]["row"] for r in ok]
    cov2 = covering.coverage_of(nmfu, rows_ok, 2)
    feats = collections.Counter()
    per_origin = collections.Counter()
    seen = set()
    for r in ok:
        pi = jobs[r["idx"]]["pi"]
        if pi in seen:
            continue
        seen.add(pi)
        per_origin[progs[pi]["origin"]] += 1
        for f in text_features(progs[pi]["src"]) | set(progs[pi].get("tags", ())):
            feats[f] += 1
    flag_on = collections.Counter(k for r in ok for k, v in r["fv"].items() if v)
    ctx.coverage.update({
        "evaluations": len(ok), "distinct_nontrivial": len(seen),
        "programs": len(progs), "program_counts": {"total": len(progs), "accepted_under_some_row": len(seen), "by_origin": dict(per_origin)},
        "jobs": len(jobs), "verdicts": dict(verdicts),
        "compiler_invocations": cmds,
        "compilations_per_std": {"gcc -std=c99 -Wall -Werror -Wno-unused-label": len(ok), "gcc -std=c11 -O2 -Wall -Werror -Wno-unused-label": len(ok),
                                 "header alone, gcc -std=c99": len(ok), "header alone, g++ -std=c++11": len(ok),
                                 "client calling the documented API, compiled and linked": len(ok) - sum(1 for r in ok if any(f["stage"] == "c99" for f in r["fail"]))},
        "covering_array": {"pairwise": ca2["stats"], "threewise": ca3["stats"] if ca3 else None,
                           "pairs_covered_by_accepted_compilations": "%d / %d" % cov2},
        "programs_per_feature": dict(sorted(feats.items())),
        "accepted_compilations_per_resolved_flag": dict(sorted(flag_on.items())),
        "label_tie": {"compilations": len(ok), "gotos_scraped": sum(r.get("n_gotos", 0) for r in ok), "states": sum(r.get("n_states", 0) for r in ok),
                      "python_mirror_on": len(ok)},
        "api_tie": {"compilations": len(ok), "evaluated_by": "Python evaluation of the same table translator/header2coq.py wrote to Gen/GApi.v"},
    })
    big = max(ok, key=lambda r: r.get("n_states", 0)) if ok else None
    if big:
        ctx.samples.append({"largest_machine": big["name"], "states": big["n_states"], "transitions": big["n_trans"], "flags": " ".join(big["flags"])})
    for r in ok[:2]:
        ctx.samples.append({"compiled": r["name"], "flags": " ".join(r["flags"]), "declared": r["decls"]})
    ctx.log("%d accepted compilations, %d compiler invocations, pairs covered %d/%d, drift %d" % (len(ok), cmds, cov2[0], cov2[1], len(drift)))


def coq_sample(ctx, rs):
    """the Coq definitions of Api/Labels.v evaluated by vm_compute on real machines: same lists as the Python mirror, hypotheses hold"""
    from concurrent.futures import ThreadPoolExecutor
    rs = sorted(rs, key=lambda r: r["n_trans"])
    rs = [r for r in rs if r["n_trans"] <= 1500][: (120 if ctx.tier == "quick" else 400)]
    if not rs:
        return
    d = os.path.join(WORK, "coq")
    os.makedirs(d, exist_ok=True)
    PRE = ["From Coq Require Import List Bool Arith.", "Import ListNotations.", "From NV Require Import Api.Labels.",
           "Definition T := Build_trans.", "Definition S := Build_state."]
    SH = 40
    shards = [rs[k:k + SH] for k in range(0, len(rs), SH)]
    paths = []
    for si, shard in enumerate(shards):
        L = list(PRE)
        for k, r in enumerate(shard):
            mm = r["machine"]
            L.append("Definition m%d : machine := %s." % (k, coq_machine(mm["m"])))
            st = coq_bool(mm["strict"])
            L.append("Definition ok%d : bool := targets_in_rangeb m%d && tids_distinctb m%d && labels_eqb (feed_gotos %s m%d) %s && labels_eqb (feed_labels %s m%d) %s && labels_eqb (end_gotos %s m%d) %s && labels_eqb (end_labels m%d) %s." % (
                k, k, k, st, k, coq_labels(mm["pred"]["feed_gotos"]), st, k, coq_labels(mm["pred"]["feed_labels"]), st, k, coq_labels(mm["pred"]["end_gotos"]), k, coq_labels(mm["pred"]["end_labels"])))
        L.append("Definition bad : list nat := map fst (filter (fun c => negb (snd c)) [%s])." % "; ".join("(%d, ok%d)" % (k, k) for k in range(len(shard))))
        L.append("Eval vm_compute in bad.")
        path = os.path.join(d, "cases_c11_%03d.v" % si)
        open(path, "w").write("\n".join(L) + "\n")
        paths.append(path)
    with ThreadPoolExecutor(max_workers=common.NCPU) as ex:
        outs = list(ex.map(lambda p_: common.coqc_file(p_, timeout=900), paths))
    n_ok = 0
    for shard, (rc, out) in zip(shards, outs):
        m = re.search(r"=\s*(\[[^\]]*\]|nil)", out.replace("\n", " "))
        if rc != 0 or not m:
            ctx.violation("labels-coq-sample-build", "a Labels certificate shard does not compile", {"broken": "correspondence Labels.v vs Python mirror", "output": out[-2000:]}, found_input=False)
            continue
        bad = [int(x) for x in re.findall(r"\d+", m.group(1))]
        n_ok += len(shard) - len(bad)
        for b in bad[:2]:
            r = shard[b]
            ctx.violation("labels-mirror-mismatch:%s" % r["name"], "Api/Labels.v and its Python mirror disagree on the machine of %s [%s] (or a hypothesis of labels_resolve fails on it)" % (r["name"], " ".join(r["flags"])),
                          {"broken": "correspondence Labels.v vs Python mirror", "program_name": r["name"], "flags": r["flags"]}, found_input=True)
    ctx.coverage.setdefault("label_tie_coq", {})
    ctx.coverage["label_tie_coq"] = {"machines_evaluated_by_vm_compute": len(rs), "agree_with_python_mirror_and_hypotheses_hold": n_ok}
    ctx.log("Labels.v evaluated on %d real machines inside Coq: %d agree" % (len(rs), n_ok))



def coq_api_sample(ctx, rs):
    """the Coq evaluation of Gen/GApi.v (ApiSpec.declared / defined_functions under vm_compute) against the symbols scraped from real headers / sources"""
    from concurrent.futures import ThreadPoolExecutor
    rs = rs[: (150 if ctx.tier == "quick" else 450)]
    if not rs or not os.path.exists(vo("Api/ApiProps.v")):
        return
    d = os.path.join(WORK, "coq")
    os.makedirs(d, exist_ok=True)
    q = lambda x: '"' + x.replace('"', '""') + '"'
    def decl(x):
        if x[0] == "fun": return "DFun %s %s" % (q(x[1]), q(x[2]))
        if x[0] == "hookproto": return "DHookProto %s %s" % (q(x[1]), q(x[2]))
        if x[0] == "hookmember": return "DHookMember %s" % q(x[1])
        return "DEnum %s" % q(x[1])
    sl = lambda l: "[" + "; ".join(q(x) for x in l) + "]"
    PRE = ["From Coq Require Import String List Bool.", "Import ListNotations.", "From NV Require Import Api.ApiSpec Gen.GApi Api.ApiProps.", "Open Scope string_scope.", "Open Scope list_scope.",
           "Definition deqb (a b : decl) : bool := if decl_eq_dec a b then true else false.",
           "Definition same (l1 l2 : list decl) : bool := Nat.eqb (length l1) (length l2) && forallb (fun x => existsb (deqb x) l2) l1 && forallb (fun x => existsb (deqb x) l1) l2.",
           "Definition samep (l1 l2 : list (string * string)) : bool := Nat.eqb (length l1) (length l2) && forallb (fun x => existsb (pair_eqb x) l2) l1 && forallb (fun x => existsb (pair_eqb x) l1) l2.",
           "Definition nodata : string -> bool := fun _ => false."]
    SH = 50
    shards = [rs[k:k + SH] for k in range(0, len(rs), SH)]
    paths = []
    for si, shard in enumerate(shards):
        L = list(PRE)
        items = []
        for k, r in enumerate(shard):
            fv = "(fv_of [%s])" % "; ".join("(%s, %s)" % (q(f), coq_bool(v)) for f, v in sorted(r["fv"].items()))
            hooks, fcs, ycs = r["decls"]
            L.append("Definition ok%d : bool := same (declared nodata %s %s %s %s header_items) [%s] && samep (defined_functions nodata %s source_items) [%s]." % (
                k, fv, sl(hooks), sl(fcs), sl(ycs), "; ".join(decl(x) for x in r["scraped"]["header"]), fv, "; ".join("(%s, %s)" % (q(x[1]), q(x[2])) for x in r["scraped"]["source"])))
            items.append("(%d, ok%d)" % (k, k))
        L.append("Definition bad : list nat := map fst (filter (fun c => negb (snd c)) [%s])." % "; ".join(items))
        L.append("Eval vm_compute in bad.")
        path = os.path.join(d, "cases_c11_api_%03d.v" % si)
        open(path, "w").write("\n".join(L) + "\n")
        paths.append(path)
    with ThreadPoolExecutor(max_workers=common.NCPU) as ex:
        outs = list(ex.map(lambda p_: common.coqc_file(p_, timeout=900), paths))
    n_ok = 0
    for shard, (rc, out) in zip(shards, outs):
        m = re.search(r"=\s*(\[[^\]]*\]|nil)", out.replace("\n", " "))
        if rc != 0 or not m:
            ctx.violation("api-coq-sample-build", "an API certificate shard does not compile", {"broken": "correspondence Gen/GApi.v (Coq evaluation) vs real headers", "output": out[-2000:]}, found_input=False)
            continue
        bad = [int(x) for x in re.findall(r"\d+", m.group(1))]
        n_ok += len(shard) - len(bad)
        for b in bad[:2]:
            r = shard[b]
            ctx.violation("api-coq-mismatch:%s" % "+".join(sorted(k.lower() for k, v in r["fv"].items() if v and k in ("EOF_SUPPORT", "DYNAMIC_MEMORY", "HOOK_GLOBAL", "HOOK_PER_STATE", "INDIRECT_START_PTR"))),
                          "the Coq evaluation of Gen/GApi.v and the real header/source of %s [%s] declare different symbols" % (r["name"], " ".join(r["flags"])),
                          {"broken": "correspondence Gen/GApi.v (Coq evaluation) vs real headers", "program_name": r["name"], "flags": r["flags"], "scraped": r["scraped"]}, found_input=True)
    ctx.coverage["api_tie_coq"] = {"compilations_evaluated_by_vm_compute": len(rs), "agree_with_real_header_and_source": n_ok}
    ctx.log("Gen/GApi.v evaluated on %d real (flag vector, declarations) inside Coq: %d agree with the scraped header/source" % (len(rs), n_ok))

def run(ctx):
    import header2coq
    props = os.path.join(COQ, "Props", "C11.v")
    ctx.obligations = len(re.findall(r"^Print Assumptions", open(props).read(), re.M))
    ctx.trusted += ["translator/header2coq.py (Python ast of generate_header / generate_source / _generate_state_object_decl -> table), fail-closed; its table is compared with every real header of the run",
                    "specification: coq/Api/ApiSpec.v (the documented API, docs/user-ref/generated-code.md and cli.md)",
                    "hand mirror: coq/Api/Labels.v of the label emission rules, compared with the scraped text of every compilation",
                    "gcc 12.2 / g++ 12.2 as the judges of 'valid C / C++ without warnings'"]
    ctx.assumptions += ["LEVEL is a partial proof: gcc's verdict on the emitted text (C typing of expressions, warning policy) is observed on the explored programs x option rows, not proved",
                        "labels_resolve assumes what Python guarantees: list.index returns a position of dfa.states, id() is injective on live transitions (checked on every real machine of the run)",
                        "api_exact quantifies over ALL flag vectors (legal or not); flags are resolved by load_commandline_flags (C19's model) before code generation"]
    ctx.coverage["level_note"] = "proof for the API table and the label rules; gcc/g++ acceptance of the emitted text is observed (correspondence), not proved"
    ctx.coverage["theorems"] = THEOREMS
    ctx.coverage["checker_cmd"] = "coqc Api/ApiSpec.v Gen/GApi.v Api/ApiProps.v Api/Labels.v Props/C11.v (Print Assumptions under every theorem)"
    err = regenerate(ctx)
    table = None
    broken = None
    if err:
        ctx.log("translator failed closed:", err)
        broken = "translator (Tie 1) for Gen/GApi.v: " + err
    else:
        table = header2coq.translate(os.path.join(common.REPO, "nmfu.py"))
        failed, out, pout = build(ctx)
        if failed:
            m = re.search(r'File "\./([^"]+)", line (\d+)', out)
            broken = "coq/%s:%s" % (m.group(1), theorem_at(os.path.join(COQ, m.group(1)), int(m.group(2)))) if m else "coq/" + failed
            ctx.log("proof build failed at", broken)
            ctx.discharged = len(common.parse_assumptions(pout or ""))
        else:
            blocks = common.parse_assumptions(pout)
            ctx.discharged = sum(1 for b in blocks if b == "closed")
            axioms = [b for b in blocks if b != "closed"]
            ctx.coverage["print_assumptions"] = "%d theorems: Closed under the global context" % ctx.discharged + ("; AXIOMS: %r" % axioms if axioms else "")
            ctx.coverage["reflection_bound"] = "api_exact: all assignments of the flags occurring in an API guard or in the documentation (2^5 = 32 on the unchanged tree; printed by Api/ApiProps.v)"
            if axioms or ctx.discharged != ctx.obligations:
                ctx.violation("axioms", "property theorems depend on axioms or are missing: %r" % axioms, {"broken": "Print Assumptions audit", "output": (pout or "")[-2000:]}, found_input=False)
    hits = [h for h in common.coq_audit_sources() if h.startswith(("Api/", "Props/C11", "Gen/GApi"))]
    if hits:
        ctx.violation("forbidden-vernacular", "forbidden vernacular in the development: %s" % hits[:3], {"hits": hits}, found_input=False)
    found = False
    if broken and table is not None:
        found = search_api_counterexample(ctx, broken, table)
    n_before = len(ctx.violations)
    correspondence(ctx, table)
    if broken and not found and len(ctx.violations) == n_before:
        ctx.violation("proof-broken:" + re.sub(r"[^\w:./-]+", "_", broken)[:80], "theorem/tie no longer checks and no failing input was found: " + broken,
                      {"broken": broken}, found_input=False)
    elif broken and not found:
        ctx.notes.append("the broken proof/tie (%s) produced no failing flag vector of its own; the compile correspondence reported the failing inputs" % broken)


def replay(ctx, path):
    """re-run one recorded (program, flags) against the current tree"""
    rec = json.load(open(path))
    import header2coq
    try:
        table = header2coq.translate(os.path.join(common.REPO, "nmfu.py"))
    except header2coq.Unsupported:
        table = None
    os.makedirs(WORK, exist_ok=True)
    r = job({"idx": 0, "name": rec.get("program_name", "replay"), "src": rec["program"], "flags": rec["flags"], "wd": os.path.join(WORK, "replay"), "table": table, "keep": True})
    print("expected: compiles without diagnostics, declared API = documented API, every goto has one label")
    print("observed: verdict=%s failures=%s api=%s labels=%s" % (r["verdict"], [(f["stage"], f["class"], f["where"]) for f in r.get("fail", [])], r.get("api"), r.get("label")))
    for f in r.get("fail", [])[:2]:
        print(f["cmd"]); print(f["output"])
    return 1 if (r["verdict"] != "ok" or r["fail"] or r["api"] or r["label"]) else 0
