"""C12 - representation options never change what is parsed.

(1) The machine is a function of the program alone: under every representation-option set the exported
machine must be strictly bisimilar to the reference export (Bisim.dfa_equiv_cert, sound for all inputs
and every data semantics).
(2) Differential runs: binaries built from one program under a covering set of option combinations are
run on the same chunked inputs; result codes, output contents / lengths / terminators and hook calls
(with output snapshots) must be identical; each binary is also compared with the extracted model.
"""
import os, json, random, collections, shutil, itertools
from concurrent.futures import ThreadPoolExecutor
import common, nm, export, gen, mach, cdrv
from props import c02

LEVEL = "translation_validation"

REPR_FLAGS = ["-fallocate-str-space-dynamic", "-fallocate-str-space-dynamic-on-demand", "-fdelete-string-free-memory", "-fstrings-as-u8",
              "-fhook-per-state", "-finclude-user-ptr", "-fuse-packed-enums", "-fuse-pragma-once", "-fno-use-cplusplus-guard",
              "-findirect-start-ptr", "-fzero-len-input-support", "-funsafe-string-indexing"]


def repr_sets(rng, k):
    """option sets covering every pair of representation flags over the run (random covering)"""
    sets = []
    for _ in range(k):
        n = rng.choice([1, 2, 2, 3, 4])
        s = rng.sample(REPR_FLAGS, n)
        if "-fdelete-string-free-memory" in s and not any(x.startswith("-fallocate-str-space-dynamic") for x in s) and rng.random() < 0.5:
            s.append("-fallocate-str-space-dynamic-on-demand")   # (alone the flag is legal and changes nothing: strings stay in the struct)
        thr = rng.choice([None, None, "1", "2", "8"])
        extra = ["-O2", "--collapsed-range-length", thr] if thr else ["-O2"]
        sets.append(s + extra)
    return sets


def strip_machine(m):
    mm = dict(m)
    mm.pop("end_check", None)
    return json.dumps(mm, sort_keys=True)


def job(args):
    idx, name, src, variants, seed, quick = args     # variants: list of prepared compiles (first = reference)
    rng = random.Random(seed)
    res = {"name": name, "src": src, "viol": [], "variants": 0, "runs": 0, "skipped": []}
    built = []
    for vi, P0 in enumerate(variants):
        wd = os.path.join(common.BUILD, "c12", "p%04d_%d" % (idx, vi))
        P = cdrv.prepare_build(P0, wd)
        if P["ok"]:
            built.append(P)
        else:
            res["skipped"].append((P0["flags"], P.get("why", "")[:60]))
    if len(built) < 2:
        for P in built:
            shutil.rmtree(P["wd"], ignore_errors=True)
        return res
    ref = built[0]
    m = ref["m"]
    special = set(cdrv.special_bytes(ref["I"]))
    inputs = [(list(x), [len(x)]) for x in gen.FEATURE_INPUTS.get(name, [])] + [(list(x), [1] * len(x)) for x in gen.FEATURE_INPUTS.get(name, [])]
    for k in range(8 if quick else 30):
        inp = cdrv.random_input(m, rng, maxlen=rng.choice([3, 8, 20, 40]), special=special)
        if inp:
            inputs.append((inp, rng.choice(cdrv.all_splits(len(inp), rng, limit=10))))
    outs = []
    for P in built:
        cmds = [P["cp"].init_vals()]
        for inp, lens in inputs:
            cmds.append("run %d %s %s %d" % (len(lens), " ".join(map(str, lens)), " ".join(map(str, inp)), 0))
        text = "\n".join(cmds) + "\n"
        rc, cl, cerr = cdrv.run_c(P["wd"], text, timeout=120)
        blocks = cdrv.split_blocks(cl)
        outs.append((P, rc, blocks, cerr))
        shutil.rmtree(P["wd"], ignore_errors=True)
    res["variants"] = len(built)
    res["runs"] = len(inputs) * len(built)
    P0, rc0, b0, e0 = outs[0]
    if rc0 != 0 or len(b0) != len(inputs):
        res["viol"].append({"kind": "reference-binary-exit", "flags": P0["flags"], "rc": rc0, "stderr": e0[-300:]})
        return res
    for (P, rc, blocks, cerr) in outs[1:]:
        if rc != 0 or len(blocks) != len(inputs):
            res["viol"].append({"kind": "binary-exit", "flags": P["flags"], "rc": rc, "stderr": cerr[-300:], "blocks": len(blocks)})
            continue
        for (inp, lens), ba, bb in zip(inputs, b0, blocks):
            # offsets are only observable with the indirect pointer: compare without them unless both have it
            direct = P0["direct"] or P["direct"]
            # the machine state index is not an observable across compilations (state numbering may differ)
            drop = lambda o: (o[0], o[1], o[2], o[4]) if len(o) == 5 else o
            oa, ob = drop(cdrv.observation(ba, direct)), drop(cdrv.observation(bb, direct))
            # a NULL (never allocated / freed) heap buffer prints :TN; normalise terminator verdicts of empty buffers
            norm = lambda o: json.dumps(o).replace(":TN", ":T1")
            if norm(oa) != norm(ob):
                res["viol"].append({"kind": "representation-dependence", "flags_a": P0["flags"], "flags_b": P["flags"], "input": inp, "split": lens,
                                    "obs_a": repr(oa)[:300], "obs_b": repr(ob)[:300]})
                break
        if len(res["viol"]) >= 2:
            break
    return res


def run(ctx):
    err = mach.ensure_machk()
    if err:
        ctx.violation("build", "extracted tools do not build: " + err[:200], {"broken": "extraction"}, found_input=False)
        return
    quick = ctx.tier == "quick"
    from props import c02 as _c02
    _c02.proofs(ctx, "C12.v", deps=("Machine/CallEquiv.vo",))   # property theorems: build + Print Assumptions audit
    rng = ctx.rng
    jobs, nstruct, struct_diff, bis = [], 0, 0, []
    skipped_unsafe = 0
    stream = c02.program_stream(ctx, 30 if quick else 400, yield_share=0.2)
    for i in range(20 if quick else 200):        # string-heavy programs: the storage options only matter for str outputs
        p = gen.Profile(max_stmts=5, delete=4, assigns=3, append=6, appc=3, hook=3, assign=1, if_=1, try_=3)
        ast, src = gen.gen_program(random.Random(rng.getrandbits(48)), p)
        if "str" in src:
            stream.append(("sgen%d" % i, src, []))
    stream += [(name, src, []) for name, src in gen.FEATURE_PROGRAMS if name != "feat-many-states"]
    for name, src, flags in stream:
        base = [f for f in flags if not f.startswith("-O")]
        I = export.Interner(empty_setstr_is_delete=True)      # shared by all variants of the program: primitive / test ids are comparable
        ref = cdrv.prepare_compile(src, base + ["-O1"], max_states=150, interner=I)   # reference: no range collapsing, in-struct char strings, global hooks, direct pointer
        if not ref["ok"]:
            continue
        variants = [ref]
        sets = repr_sets(rng, 3 if quick else 8)
        if name.startswith("feat-"):
            sets += [["-fstrings-as-u8", "-O2"], ["-fallocate-str-space-dynamic", "-O2"], ["-fallocate-str-space-dynamic-on-demand", "-fstrings-as-u8", "-O2"]]
        if "str" in src:
            # flags that only take effect together with another one, given alone (strings must stay where they are)
            sets.append([rng.choice(["-fdelete-string-free-memory", "-fno-allocate-str-space-in-struct"]), "-O2"])
        if "str" in src and ("delete" in src or '= "";' in src):
            sets.append(["-fallocate-str-space-dynamic-on-demand", "-fdelete-string-free-memory", "-O2"])   # the heap mode with the most states
        def has_index(k):
            return isinstance(k, (tuple, list)) and ((len(k) > 0 and k[0] == "index") or any(has_index(x) for x in k))
        indexes = any(has_index(info.get("expr")) for info in I.test_info + I.prim_info)
        for fl in sets:
            fl = list(dict.fromkeys(base + fl))
            if indexes and "-funsafe-string-indexing" in fl:
                # the option hands the validity of every index (in range, and into a string that holds something - an on-demand
                # string has no buffer before) to the program's author; generated programs do not promise it
                fl.remove("-funsafe-string-indexing")
                skipped_unsafe += 1
            P = cdrv.prepare_compile(src, fl, max_states=150, interner=I)
            if not P["ok"]:
                if P["verdict"] != "ok":
                    ctx.violation("verdict:%s:%s" % (name, " ".join(fl)), "program accepted with the reference options but %s with representation options %s: %s" % (P["verdict"], " ".join(fl), P["why"][:120]),
                                  {"program": src, "flags": fl, "verdict": P["verdict"], "message": P["why"]})
                continue
            nstruct += 1
            bis.append((name, src, fl, ref["m"], P["m"]))
            variants.append(P)
        jobs.append((len(jobs), name, src, variants, rng.getrandbits(32), quick))
    # (1) the machine does not depend on representation options: strict bisimulation certificate (all inputs, all data)
    for (name, src, fl, m0, m1), res in zip(bis, mach.run_machk([mach.task_bisim(a[3], a[4]) for a in bis])):
        if res != "ok":
            struct_diff += 1
            ctx.violation("machine-differs:%s:%s" % (name, " ".join(fl)), "the compiled machine changes with representation options %s (%s)" % (" ".join(fl), res[:60]),
                          {"program": src, "flags": fl, "checker": res[:300], "broken": "certificate Bisim.dfa_equiv_cert between option sets"}, found_input=False)
    with ThreadPoolExecutor(max_workers=common.NCPU) as ex:
        results = list(ex.map(job, jobs))
    nviol = 0
    skipped = collections.Counter()
    for r in results:
        for fl, why in r["skipped"]:
            skipped[why[:30]] += 1
        for v in r["viol"]:
            nviol += 1
            ctx.violation("%s:%s:%s:%s" % (v["kind"], r["name"], " ".join(v.get("flags_b", v.get("flags", []))), v.get("input")),
                          "binaries of one program under two representation-option sets behave differently: %s" % json.dumps(v)[:500],
                          {"program": r["src"], "detail": v})
            break
    ctx.coverage.update({
        "programs": len(results), "disagreements_checked": nviol + struct_diff, "option_sets_compared_structurally": nstruct,
        "binaries_run": sum(r["variants"] for r in results), "runs": sum(r["runs"] for r in results), "skipped_variants": dict(skipped),
        "flags_varied": REPR_FLAGS + ["--collapsed-range-length {1,2,8}"], "unsafe_indexing_dropped_for_programs_with_index_expressions": skipped_unsafe,
        "checker_cmd": "ocaml/machk bisim (Bisim.dfa_equiv_cert) between option sets + differential runs of gcc-built binaries",
    })
    ctx.samples += [{"program": r["name"], "variants": r["variants"], "runs": r["runs"]} for r in results[::max(1, len(results) // 8)]][:10]
    ctx.trusted += ["gcc and the C semantics of the emitted text", "harness/export.py, harness/cdrv.py (driver, observation extraction)"]
    ctx.assumptions += ["differential by nature: relational over inputs, sampled inputs and option sets (every pair of flags is covered with high probability over the run, not by construction)",
                        "-funsafe-string-indexing is exercised only on programs without string index expressions (the option makes the validity of every index the author's responsibility); allocator failure is out of scope"]
