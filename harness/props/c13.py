"""C13 - macros behave exactly like their textual expansion.

Translation validation: every generated program is printed twice from one AST -- with macro
declarations and calls, and hand-inlined by gen.subst_stmts (textual substitution: the specification).
Both texts are compiled by the real compiler; verdicts must agree and, for accepted pairs, the two
exported machines must carry a STRICT bisimulation certificate (Bisim.dfa_equiv_cert: identical
behaviour on all inputs under every data semantics).  Ill-kinded and wrong-arity calls must be diagnosed.
"""
import os, json, random, collections
import common, nm, export, gen, mach

LEVEL = "translation_validation"

BAD_CALLS = [
    # (description, macro declarations + body)
    ("wrong arity (too few)", 'macro m(out o, expr e) { o = [e]; }\nparser { m(n0); "a"; }'),
    ("wrong arity (too many)", 'macro m(out o) { o = [1]; }\nparser { m(n0, [2]); "a"; }'),
    ("arguments to a parameterless macro", 'macro m() { "x"; }\nparser { m([1]); "a"; }'),
    ("pattern where an out is declared", 'macro m(out o) { o = [1]; }\nparser { m("zz"); "a"; }'),
    ("expression where a hook is declared", 'macro m(hook h) { h(); "x"; }\nparser { m([n0 + 1]); "a"; }'),
    ("out where a match is declared (used)", 'macro m(match w) { w; }\nparser { m(n0); "a"; }'),
    ("hook name where an out is declared", 'macro m(out o) { o = [1]; }\nparser { m(h0); "a"; }'),
    ("out name where a hook is declared", 'macro m(hook h) { h(); "x"; }\nparser { m(n0); "a"; }'),
    ("unknown finish code", 'macro m(finishcode c) { "x"; finish c; }\nparser { m(NOPE); "a"; }'),
    ("loop argument that is not a loop", 'macro m(loop l) { "x"; break l; }\nparser { loop L { m(n0); } "a"; }'),
    ("macro argument that is a hook", 'macro m(macro q) { q(); "x"; }\nparser { m(h0); "a"; }'),
    ("regex where an expr is declared", 'macro m(expr e) { n0 = e; }\nparser { m(/ab/); "a"; }'),
]
HEADER = "out int n0;\nout str[8] s0;\nhook h0;\nfinishcode F0;\n"


def run(ctx):
    err = mach.ensure_machk()
    if err:
        ctx.violation("build", "extracted tools do not build: " + err[:200], {"broken": "extraction"}, found_input=False)
        return
    quick = ctx.tier == "quick"
    from props import c02 as _c02
    _c02.proofs(ctx, "C13.v", deps=("Machine/CallEquiv.vo",))   # property theorems: build + Print Assumptions audit
    rng = ctx.rng
    n = 120 if quick else 2500
    pairs, verd = [], collections.Counter()
    used = collections.Counter()
    for i in range(n):
        capture = (i % 12 == 11)
        a, b, d = gen.gen_macro_program(random.Random(rng.getrandbits(48)), capture=capture)
        for mname in d["macros_used"]:
            used[mname] += 1
        fl = [rng.choice(["-O0", "-O1", "-O2", "-O3"])] + (["-fyield-support"] if d["yield"] else [])
        I = export.Interner()
        ra = nm.compile_source(a, fl, interner=I)
        rb = nm.compile_source(b, fl, interner=I)
        verd[(ra["verdict"], rb["verdict"])] += 1
        cls = "capture" if capture else "plain"
        if ra["verdict"] != rb["verdict"]:
            ctx.violation("verdict:%s:%s>%s:%s" % (cls, rb["verdict"], ra["verdict"], "+".join(d["macros_used"]) if not capture else "m_cap_out(e)->m_cap_in(e)"),
                          "the program with macros is %s (%s) but its textual expansion is %s" % (ra["verdict"], ra["message"][:120].replace("\n", " "), rb["verdict"]),
                          {"program_with_macros": a, "program_inlined": b, "flags": fl, "verdict_macros": ra["verdict"], "verdict_inlined": rb["verdict"], "message": ra["message"]})
            continue
        if ra["verdict"] == "internal":
            ctx.violation("internal:%s" % ra["message"][:60], "both versions crash the compiler: " + ra["message"][:100], {"program_with_macros": a, "flags": fl})
            continue
        if ra["verdict"] == "ok":
            pairs.append((a, b, fl, d, ra["machines"]["post_optimize"], rb["machines"]["post_optimize"]))
    results = mach.run_machk([mach.task_bisim(p[4], p[5]) for p in pairs])
    nbad = 0
    for (a, b, fl, d, m1, m2), res in zip(pairs, results):
        if res != "ok":
            nbad += 1
            parts = res.split()
            inp = None
            if parts[0] == "mismatch":
                from props.c05 import path_from_parents
                inp = path_from_parents(parts[4:], int(parts[1]), int(parts[2])) + [int(parts[3])]
            ctx.violation("behaviour:%s:%s" % ("+".join(d["macros_used"]), inp), "the program with macros and its textual expansion compile to machines that are not bisimilar (%s)" % res[:60],
                          {"program_with_macros": a, "program_inlined": b, "flags": fl, "input": inp, "broken": "certificate Bisim.dfa_equiv_cert"}, found_input=inp is not None)
    # ---- known finding: one witness (a hook parameter named like a global macro); the generator never produces the shape
    WA = 'out int x = 0; hook h1; macro foo() { "Z"; x = [x * 0 + 9]; } macro bar(hook foo) { "a"; foo(); "b"; } parser { bar(h1); }'
    WB = 'out int x = 0; hook h1; macro foo() { "Z"; x = [x * 0 + 9]; } parser { "a"; h1(); "b"; }'
    WI = export.Interner()
    wa, wb = nm.compile_source(WA, ["-O1"], interner=WI), nm.compile_source(WB, ["-O1"], interner=WI)
    if wa["verdict"] == "ok" and wb["verdict"] == "ok":
        wres = mach.run_machk([mach.task_bisim(wa["machines"]["post_optimize"], wb["machines"]["post_optimize"])])[0]
        if wres != "ok":
            ctx.violation("behaviour:witness:hook-parameter-shadowed-by-global-macro",
                          "inside a macro a call through a hook parameter named like a global macro expands the macro instead of calling the hook argument (%s)" % wres[:40],
                          {"program_with_macros": WA, "program_inlined": WB, "flags": ["-O1"], "input": [97, 90], "broken": "certificate Bisim.dfa_equiv_cert"}, found_input=True)
        else:
            ctx.log("witness hook-parameter-shadowed-by-global-macro: the finding no longer reproduces")
    else:
        ctx.log("witness hook-parameter-shadowed-by-global-macro: verdicts %s / %s" % (wa["verdict"], wb["verdict"]))
    # in-Coq certificates for a sample
    items = []
    small = [p for p in pairs if len(p[4]["states"]) <= 30]
    rng.shuffle(small)
    for i, (a, b, fl, d, m1, m2) in enumerate(small[:16 if quick else 80]):
        items.append(("pair%d" % i, ["Definition a_%d : dfa := %s." % (i, export.coq_dfa(m1)), "Definition b_%d : dfa := %s." % (i, export.coq_dfa(m2))],
                      "dfa_equiv_cert a_%d b_%d" % (i, i), "dfa_equiv_cert_sound a_%d b_%d" % (i, i)))
    cres = mach.coq_certs("c13", items, per_file=4)
    for (name, ok, tail) in cres:
        if ok is False:
            ctx.violation("coq-cert:%s" % name, "in-Coq bisimulation certificate rejected", {"broken": "Cert dfa_equiv_cert", "output": tail}, found_input=False)
    # ill-kinded / wrong-arity calls must be diagnosed
    nneg = 0
    for desc, text in BAD_CALLS:
        r = nm.compile_source(HEADER + text, ["-O1"])
        nneg += 1
        if r["verdict"] != "diagnosed":
            ctx.violation("bad-call:%s:%s" % (desc, r["verdict"]), "a macro call with %s is %s instead of a diagnosed error (%s)" % (desc, r["verdict"], r["message"][:100]),
                          {"program": HEADER + text, "verdict": r["verdict"], "message": r["message"]})
    ctx.coverage.update({
        "programs": len(pairs), "disagreements_checked": nbad, "generated": n, "verdict_pairs(macros,inlined)": {"%s/%s" % k: v for k, v in verd.items()},
        "macro_templates_used": dict(used), "argument_kinds": ["macro", "hook", "out", "match", "expr", "loop", "finishcode", "yieldcode"],
        "pairs_certified_in_coq": sum(1 for _, ok, _ in cres if ok), "ill_formed_calls_checked": nneg,
        "checker_cmd": "ocaml/machk bisim (Bisim.dfa_equiv_cert) + coqc build/c13/cert_*.v",
    })
    ctx.samples.append({"with_macros": pairs[0][0], "inlined": pairs[0][1]} if pairs else {"note": "no accepted pair"})
    ctx.trusted += ["harness/gen.py subst_stmts (textual expansion = the specification of a macro call)", "exporter, Machine/Sem.v, extraction as for C05"]
    ctx.assumptions += ["program quantifier sampled from composable macro templates covering all eight argument kinds, nesting and forwarding of arguments; inputs covered by the bisimulation theorem"]
