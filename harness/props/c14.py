"""C14 - math expressions evaluate as C arithmetic over the parser's variables.

Level: proof + correspondence.
  1. Tie 1: translator/grammar2coq.py regenerates coq/Gen/GGrammar.v (precedence layers of _math_expr, C types chosen by
     _integer_containing) from the CURRENT source; coq/Expr/ExprProps.v and coq/Props/C14.v are re-checked against it
     (layers_agree, same_tree, int_type_exact ...), Print Assumptions audited.
  2. Tie 2 + C semantics: random well-typed expression trees printed with minimal parentheses are compiled by the real compiler
     inside small parsers (assignment, character append, conditional action, `if` statement), built with gcc and run on several
     variable valuations; per expression one generated Coq file checks, by vm_compute,
        - ExprModel.to_nexpr / to_cond of the generator's tree  = the IntegerExpr tree the real compiler built,
        - ExprModel.fold of it                                    = the tree harness/cdrv.py hands to the concrete model,
        - ExprModel.render of it                                  = the tokens of the C text the real generator emitted,
        - CParse.cparse of those tokens                           = the rendered tree; the source text is derivable (wf) and parses to itself,
     and computes the expected stored values from the SOURCE tree with the C semantics (cceval + store_conv); these are
     compared with what the gcc-built binary stored, and the binary is compared line by line with the extracted model (crun).
  3. When a proof or the translator breaks, the same correspondence (targeted operator-pair expressions first) is the search for
     a failing input.
"""
import os, re, sys, json, shutil, ast as pyast, collections
from concurrent.futures import ThreadPoolExecutor
import common, nm, export, cdrv, mach, exprgen
from common import COQ, BUILD, VERIF, sh

LEVEL = "proof"
sys.path.insert(0, os.path.join(VERIF, "translator"))

MY_FILES = ["Expr/CParse.v", "Expr/ExprModel.v", "Gen/GGrammar.v", "Expr/ExprProps.v"]
DEPS = {"Expr/CParse.v": ["Expr/CArith.vo"], "Expr/ExprModel.v": ["Expr/CArith.vo", "Expr/CParse.vo"],
        "Gen/GGrammar.v": ["Expr/CArith.vo", "Expr/CParse.vo"],
        "Expr/ExprProps.v": ["Expr/CArith.vo", "Expr/CParse.vo", "Expr/ExprModel.vo", "Gen/GGrammar.vo", "CSkel/Store.vo", "Machine/Sem.vo", "Machine/Dfa.vo"]}

# used only when the translator fails closed, so that the search for a failing input can still run: the layering the
# hand mirror was written against (= C's)
REFERENCE_GGRAMMAR = """From Coq Require Import ZArith List Bool.
Import ListNotations.
From NV Require Import Expr.CArith Expr.CParse.
Definition g_layers : list (list binop * bool) :=
  [([OLOr], true); ([OLAnd], true); ([OOr], true); ([OXor], true); ([OAnd], true); ([OEq; ONe; OLt; OGt; OLe; OGe], false);
   ([OShl; OShr], false); ([OAdd; OSub], true); ([OMul; ODiv; OMod], true)].
Definition g_unary_arg_is_atom : bool := true.
"""


# ---------------------------------------------------------------------------
# Coq build
# ---------------------------------------------------------------------------
def theorem_at(path, line):
    name = None
    for n, l in enumerate(open(path), 1):
        m = re.match(r"\s*(Theorem|Lemma|Example|Corollary|Definition)\s+(\w+)", l)
        if m:
            name = m.group(2)
        if n >= line:
            break
    return name


def coqc(rel, timeout=600):
    return sh(["coqc", "-Q", COQ, "NV", os.path.join(COQ, rel)], timeout=timeout, cwd=COQ)


def stale(rel):
    src = os.path.join(COQ, rel)
    vo = src[:-2] + ".vo"
    if not os.path.exists(vo) or os.path.getmtime(vo) < os.path.getmtime(src):
        return True
    for d in DEPS.get(rel, []):
        p = os.path.join(COQ, d)
        if os.path.exists(p) and os.path.getmtime(p) > os.path.getmtime(vo):
            return True
    return False


def build_proofs(ctx, upto_props=True):
    """returns (broken or None, output of Props/C14.v)"""
    need = [d for d in ("Expr/CArith.vo", "CSkel/Store.vo") if not os.path.exists(os.path.join(COQ, d))]
    if need:
        rc, out = common.coq_make(need, timeout=900)
        if rc != 0:
            return "coq build of %s" % need, out
    with common.Lock("coq"):
        force = False
        for attempt in (0, 1):
            broken = None
            for rel in MY_FILES:
                if force or stale(rel):
                    rc, out = coqc(rel)
                    if rc != 0:
                        if "inconsistent assumptions" in out and attempt == 0:
                            force = True
                            broken = "retry"
                            break
                        m = re.search(r'File "([^"]+)", line (\d+)', out)
                        broken = "coq/%s:%s" % (rel, theorem_at(os.path.join(COQ, rel), int(m.group(2))) if m else "?")
                        return broken, out
                    force = True          # everything after a recompiled file is recompiled
            if broken != "retry":
                break
        if not upto_props:
            return None, ""
        rc, out = coqc("Props/C14.v")
        if rc != 0 and "inconsistent assumptions" in out:
            for rel in MY_FILES:
                coqc(rel)
            rc, out = coqc("Props/C14.v")
        if rc != 0:
            m = re.search(r'File "([^"]+)", line (\d+)', out)
            return "coq/Props/C14.v:%s" % (theorem_at(os.path.join(COQ, "Props", "C14.v"), int(m.group(2))) if m else "?"), out
        return None, out


# ---------------------------------------------------------------------------
# programs
# ---------------------------------------------------------------------------
def declarations(rdecl):
    L = ["out %s %s;" % (d, n) for n, d, _ in exprgen.INT_VARS]
    L += ["out bool %s;" % n for n in exprgen.BOOL_VARS]
    L.append("out enum{%s} %s;" % (",".join(exprgen.ENUM_VALUES), exprgen.ENUM_VAR))
    for n, size, null in exprgen.STR_VARS:
        L.append("out %sstr[%d] %s;" % ("" if null else "unterminated ", size, n))
    L += ["out %s r;" % rdecl, "out bool rb;", "out str[8] t;", "out int c1;", "out int c2;"]
    return "\n".join(L) + "\n"


def program(text, kinds, rdecl):
    body = ["    /./;"]
    if "assign" in kinds:
        body.append("    r = [%s];" % text)
    if "assignb" in kinds:
        body.append("    rb = [%s];" % text)
    if "append" in kinds:
        body.append("    t += [%s];" % text)
    if "conda" in kinds:
        body.append("    if %s { c1 = 1; } else { c1 = 2; }" % text)
    if "condp" in kinds:
        body.append("    if %s { \"y\"; c2 = 1; } else { \"y\"; c2 = 2; }" % text)
    else:
        body.append("    \"y\";")
    return declarations(rdecl) + "parser {\n" + "\n".join(body) + "\n}\n"


def value_contexts(rng, k, tree):
    """variable valuations (boundary values of every declared type); strings incl. bytes 0 / 0x80 / 0xff"""
    out = []
    for i in range(k):
        c = {}
        for n, _, ty in exprgen.INT_VARS:
            c[n] = exprgen.boundary_values(ty, rng) if i else {0: 3, 1: 5}.get(len(c) % 2, 3)
        for n in exprgen.BOOL_VARS:
            c[n] = rng.randrange(2)
        c[exprgen.ENUM_VAR] = rng.randrange(len(exprgen.ENUM_VALUES))
        for n, size, null in exprgen.STR_VARS:
            eff = size - (1 if null else 0)
            ln = rng.choice([0, 1, eff - 1, eff])
            c[n] = [rng.choice([97, 48, 0, 128, 255, 1, 122]) for _ in range(ln)]
        out.append(c)
    return out


# ---------------------------------------------------------------------------
# the real compiler's objects -> Coq terms
# ---------------------------------------------------------------------------
def collect_exprs(dctx):
    """{kind: IntegerExpr / condition} from the compiled machine"""
    import nmfu
    found = collections.defaultdict(list)
    def acts(lst):
        for a in lst:
            if isinstance(a, nmfu.SetTo):
                nme = a.into_storage.name
                if nme == "r":
                    found["assign"].append((a.value_expr, a.into_storage))
                elif nme == "rb":
                    found["assignb"].append((a.value_expr, a.into_storage))
            elif isinstance(a, nmfu.AppendCharTo):
                found["append"].append((a.append_value, None))
            elif isinstance(a, nmfu.ConditionalAction):
                for c in a.conditions:
                    if isinstance(c, nmfu.IntegerCondition):
                        found["conda"].append((c, None))
                    acts(a.sub_actions[c])
    acts(list(dctx.start_actions))
    for st in dctx.dfa.states:
        for t in st.transitions:
            if isinstance(st, nmfu.DFConditionPoint) and isinstance(t.condition, nmfu.IntegerCondition):
                found["condp"].append((t.condition, None))
            acts(list(t.actions))
    return found


def nkey(e, vidx, enums):
    """IntegerExpr -> Coq term of ExprModel.nexpr"""
    import nmfu
    N = nmfu
    T = N.OutputStorageType
    if isinstance(e, N.LiteralIntegerExpr):
        if e.typ == T.ENUM:
            return "(NEnumConst (%d))" % enums.index(e.value)
        if e.typ == T.BOOL:
            if isinstance(e.value, bool):
                if e.value is False:
                    return "NFalseK"
                raise ValueError("LiteralIntegerExpr(True, BOOL)")
            return "(NBoolConst %s)" % ("true" if e.value else "false")
        return "(NLit (%d))" % int(e.value)
    if isinstance(e, N.OutIntegerExpr):
        return "(NVar %d)" % vidx[e.ref.name]
    if isinstance(e, N.StringLengthIntegerExpr):
        return "(NLen %d)" % vidx[e.ref.name]
    if isinstance(e, N.StringRefIntegerExpr):
        return "(NIdx %d %s)" % (vidx[e.ref.name], nkey(e.index, vidx, enums))
    if isinstance(e, N.LastCharIntegerExpr):
        return "NLast"
    def spine(children, ops):
        acc = nkey(children[0], vidx, enums)
        for i, (c, op) in enumerate(zip(children[1:], ops)):
            acc = "(NNode %s %s %s %s)" % (exprgen.COQ_OP[op], acc, "true" if i >= 1 else "false", nkey(c, vidx, enums))
        return acc
    if isinstance(e, N.SumIntegerExpr):
        return spine(e.children, ["-" if n else "+" for n in e.negate[1:]])
    if isinstance(e, N.MulIntegerExpr):
        return spine(e.children, [d.value for d in e.divide[1:]])
    if isinstance(e, N.CompareIntegerExpr):
        return "(NNode %s %s false %s)" % (exprgen.COQ_OP[e.op.value], nkey(e.left, vidx, enums), nkey(e.right, vidx, enums))
    if isinstance(e, N.BitShiftIntegerExpr):
        return "(NNode %s %s false %s)" % ("OShl" if e.towards_left else "OShr", nkey(e.left, vidx, enums), nkey(e.right, vidx, enums))
    if isinstance(e, N.BitwiseIntegerExpr):
        return spine(e.children, [e.op.value] * (len(e.children) - 1))
    if isinstance(e, N.DisjunctionIntegerExpr):
        return spine(e.children, ["||"] * (len(e.children) - 1))
    if isinstance(e, N.ConjunctionIntegerExpr):
        return spine(e.children, ["&&"] * (len(e.children) - 1))
    raise ValueError("unknown IntegerExpr %r" % e)


def iexpr_term(tokens):
    """the token form of cdrv.CfgPrinter.expr -> Coq term of CArith.iexpr"""
    toks = tokens.split()
    pos = [0]
    def go():
        t = toks[pos[0]]; pos[0] += 1
        if t == "L":
            z = toks[pos[0]]; pos[0] += 1
            return "(ELit (%s))" % z
        if t == "K":
            z = toks[pos[0]]; pos[0] += 1
            return "(EConstInt (%s))" % z
        if t in ("V", "N"):
            v = toks[pos[0]]; pos[0] += 1
            return "(%s %s)" % ("EVar" if t == "V" else "ELen", v)
        if t == "X":
            v = toks[pos[0]]; pos[0] += 1
            return "(EIdx %s %s)" % (v, go())
        if t == "$":
            return "ELast"
        if t == "O":
            op = toks[pos[0]]; pos[0] += 1
            a = go(); b = go()
            return "(EBin %s %s %s)" % (exprgen.COQ_OP[op], a, b)
        raise ValueError("bad token " + t)
    r = go()
    if pos[0] != len(toks):
        raise ValueError("trailing tokens in " + tokens)
    return r


C_TOKEN = re.compile(r"\s*(\(uint8_t\)|state->c\.\w+|state->\w+_counter|inval\b|true\b|false\b|PROG_\w+|\d+|<<|>>|<=|>=|==|!=|&&|\|\||[-+*/%&|^<>!?:()\[\]])")


class TokenMismatch(Exception):
    pass


def c_tokens(text, vidx, outs, unsafe):
    """tokens of the emitted C expression as Coq terms of CParse.token; the bounds-check template around an indexed read
       (((I) >= 0 && (I) < SIZE) ? ((uint8_t)BUF[I]) : 0)   [unsafe indexing: ((uint8_t)BUF[I])]
    is recognised as such (its three copies of I must be identical, SIZE the declared size) and becomes  BUF [ I ]"""
    raw, pos = [], 0
    while pos < len(text):
        m = C_TOKEN.match(text, pos)
        if not m:
            if text[pos:].strip() == "":
                break
            raise TokenMismatch("cannot tokenise %r at %d" % (text, pos))
        raw.append(m.group(1)); pos = m.end()
    sizes = {o["name"]: o["size"] for o in outs if o["type"] == "STR"}
    def match_bracket(toks, i):
        d = 0
        for j in range(i, len(toks)):
            if toks[j] == "[":
                d += 1
            elif toks[j] == "]":
                d -= 1
                if d == 0:
                    return j
        raise TokenMismatch("unbalanced [ in %r" % text)
    def reduce(toks):
        out, i = [], 0
        while i < len(toks):
            t = toks[i]
            if t.startswith("state->c.") and i + 1 < len(toks) and toks[i + 1] == "[":
                name = t[len("state->c."):]
                j = match_bracket(toks, i + 1)
                I = reduce(toks[i + 2:j])
                if unsafe:
                    pre, post = ["(", "(uint8_t)"], [")"]
                else:
                    pre = ["(", "(", "("] + I + [")", ">=", "0", "&&", "("] + I + [")", "<", str(sizes.get(name)), ")", "?", "(", "(uint8_t)"]
                    post = [")", ":", "0", ")"]
                if out[len(out) - len(pre):] != pre or toks[j + 1:j + 1 + len(post)] != post:
                    raise TokenMismatch("indexed read of %s is not wrapped in the expected bounds-check template: %r" % (name, text))
                out = out[:len(out) - len(pre)] + ["BUF:" + name, "["] + I + ["]"]
                i = j + 1 + len(post)
            else:
                out.append(t); i += 1
        return out
    red = reduce(raw)
    res = []
    for t in red:
        if t == "(": res.append("TLP")
        elif t == ")": res.append("TRP")
        elif t == "[": res.append("TLB")
        elif t == "]": res.append("TRB")
        elif t == "!": res.append("TNot")
        elif t in exprgen.COQ_OP: res.append("TOp %s" % exprgen.COQ_OP[t])
        elif t.isdigit(): res.append("TNum (%s)" % t)
        elif t == "true": res.append("TConst 1")
        elif t == "false": res.append("TConst 0")
        elif t.startswith("PROG_EN_"): res.append("TConst (%d)" % exprgen.ENUM_VALUES.index(t[len("PROG_EN_"):]))
        elif t.startswith("BUF:"): res.append("TBuf %d" % vidx[t[4:]])
        elif t.startswith("state->c."): res.append("TVar %d" % vidx[t[len("state->c."):]])
        elif t.startswith("state->") and t.endswith("_counter"): res.append("TLen %d" % vidx[t[len("state->"):-len("_counter")]])
        elif t == "inval": res.append("TLast")
        else:
            raise TokenMismatch("token %r of %r has no counterpart in the model's token language" % (t, text))
    return "[" + "; ".join(res) + "]"


# ---------------------------------------------------------------------------
# one case: compile, collect terms, build
# ---------------------------------------------------------------------------
KIND_COQ = {"assign": "KAssign IntoInt", "assignb": "KAssign IntoBool", "append": "KAppend", "conda": "KCond", "condp": "KCond"}


def prepare_case(idx, tree, ety, kinds, rdecl, rty, flags):
    """main thread: compile with the real compiler, gather everything but the gcc build"""
    import nmfu
    text = exprgen.text(tree)
    src = program(text, kinds, rdecl)
    case = {"idx": idx, "tree": tree, "text": text, "type": ety, "kinds": kinds, "rty": rty, "flags": flags, "src": src, "ok": False}
    I = export.Interner()
    res = nm.compile_source(src, flags, want_c=True, name="prog", interner=I)
    if res["verdict"] != "ok":
        case["why"] = "%s: %s" % (res["verdict"], (res["message"] or "").strip().splitlines()[0][:160] if res["message"] else "")
        return case
    m = res["machines"]["post_optimize"]
    cp = cdrv.CfgPrinter(m, I, flags)
    P = {"ok": True, "m": m, "I": I, "cp": cp, "cfg_text": cp.text(), "dfa_text": export.text_dfa(m), "c": res["c"], "h": res["h"],
         "direct": True, "eof": False, "flags": flags, "src": src}
    dctx = res["dctx"]
    cctx = nmfu.CodegenCtx(dctx, "prog")
    found = collect_exprs(dctx)
    IUC = nmfu.IntegerExprUseContext
    vidx = cp.vidx
    unsafe = "-funsafe-string-indexing" in flags
    ties = []
    try:
        for k in kinds:
            objs = found.get(k, [])
            if len(objs) != 1:
                raise TokenMismatch("expected exactly one %s expression in the compiled machine, found %d" % (k, len(objs)))
            obj, target = objs[0]
            if k in ("assign", "assignb"):
                e = obj
                ctext = cctx._generate_code_for_int_expr(e, IUC.ASSIGN_ON_MATCH, target)
                needle = "state->c.%s = %s;" % (target.name, ctext)
            elif k == "append":
                e = obj
                ctext = cctx._generate_code_for_int_expr(e, IUC.ASSIGN_ON_MATCH, nmfu.OutputStorage(nmfu.OutputStorageType.INT, "$appendctx"))
                needle = ")(%s);" % ctext
            else:
                e = obj.expr
                ctext = cctx._generate_condition(obj, False, k == "conda")
                needle = "if (%s) {" % ctext
            if needle not in P["c"]:
                raise TokenMismatch("the text generated for the %s expression (%s) does not occur in the generated source" % (k, ctext))
            ties.append({"kind": k, "n": nkey(e, vidx, exprgen.ENUM_VALUES), "ie": iexpr_term(cp.expr(export.expr_key(e))),
                         "ctoks": c_tokens(ctext, vidx, P["m"]["outs"], unsafe), "ctext": ctext})
    except Exception as ex:
        case["tie_error"] = "%s: %s" % (type(ex).__name__, ex)
        case["P"] = P
        return case
    case.update(ok=True, P=P, ties=ties, vidx=vidx)
    return case


def coq_decls(cp):
    out = []
    for o in cp.outs:
        d = cp.decl(o).split()
        if d[0] == "I":
            out.append("DInt %s" % exprgen.COQ_CTY[d[1]])
        else:
            out.append("DBuf %s %s %s" % (d[1], "true" if d[2] == "1" else "false", "true" if d[3] == "1" else "false"))
    return "[" + "; ".join(out) + "]"


def coq_tenv(cp):
    arms = []
    for i, o in enumerate(cp.outs):
        k = {"INT": "KInt", "BOOL": "KBool", "ENUM": "KEnum"}.get(o["type"], "KBuf")
        arms.append("%d%%nat => %s" % (i, k))
    return "(fun v => match v with %s | _ => KInt end)" % " | ".join(arms)


def coq_vals(init_line):
    toks = init_line.split()[1:]
    out, i = [], 0
    while i < len(toks):
        if toks[i] == "I":
            out.append("VInt (%s)" % toks[i + 1]); i += 2
        else:
            cnt, n = int(toks[i + 1]), int(toks[i + 2])
            cells = toks[i + 3:i + 3 + n]
            out.append("VBuf [%s] %d" % ("; ".join("None" if c == "-1" else "Some %s%%N" % c for c in cells), cnt))
            i += 3 + n
    return "[" + "; ".join(out) + "]"


PRELUDE = """From Coq Require Import ZArith NArith List Bool.
Import ListNotations.
From NV Require Import Expr.CArith Expr.CParse Expr.ExprModel Machine.Dfa Machine.Sem CSkel.Store.
%s
Local Open Scope Z_scope.
Definition n_tab : gtab := tab_of_layers g_layers g_unary_arg_is_atom.
Inductive ckind := KAssign (io : into) | KAppend | KCond.
Definition expected_n tenv (k : ckind) (s : sexpr) : nexpr :=
  match k with KAssign io => to_nexpr n_tab tenv io s | KAppend => to_nexpr n_tab tenv IntoNone s | KCond => to_cond n_tab tenv s end.
Definition b2z (b : bool) : Z := if b then 1 else 0.
Definition tie_bits tenv (s : sexpr) (k : ckind) (n : nexpr) (ie : iexpr) (ts : list token) : list Z :=
  [ b2z (nexpr_eqb (expected_n tenv k s) n); b2z (iexpr_eqb (fold n) ie); b2z (tokens_eqb (render n) ts);
    b2z (match cparse ts with Some t => cexpr_eqb t (emb (surf n)) | None => false end); b2z (nvalid n) ].
Definition src_bits (s : sexpr) : list Z :=
  [ b2z (wf n_tab 0 s); b2z (match cparse (tok s) with Some t => cexpr_eqb t (emb s) | None => false end) ].
Definition mkcfg decls safe : ccfg := {| c_decls := decls; c_prims := []; c_tests := []; c_safe_idx := safe; c_defaults := [] |}.
Definition row decls safe (rt : cty) (s : sexpr) (vi : list oval * N) : list Z :=
  match cceval (cenv (mkcfg decls safe) (fst vi) (snd vi)) (emb s) with
  | None => [0]
  | Some cv => [1; store_conv rt cv; wrap TU8 (snd cv); b2z (truth cv); wrap TBool (snd cv)]
  end.
"""


def write_cases(shard_cases, path, use_reference):
    L = [PRELUDE % (REFERENCE_GGRAMMAR.split("From NV Require Import Expr.CArith Expr.CParse.\n", 1)[1] if use_reference else "From NV Require Import Gen.GGrammar.")]
    names = []
    for c in shard_cases:
        cp = c["P"]["cp"]
        i = c["idx"]
        safe = "false" if "-funsafe-string-indexing" in c["flags"] else "true"
        L.append("Definition s%d : sexpr := %s." % (i, exprgen.coq_sexpr(c["tree"], c["vidx"])))
        L.append("Definition tenv%d : nat -> vkind := %s." % (i, coq_tenv(cp)))
        L.append("Definition decls%d : list odecl := %s." % (i, coq_decls(cp)))
        ties = "; ".join("tie_bits tenv%d s%d (%s) %s %s %s" % (i, i, KIND_COQ[t["kind"]], t["n"], t["ie"], t["ctoks"]) for t in c["ties"])
        rows = "; ".join("row decls%d %s %s s%d (%s, %d%%N)" % (i, safe, exprgen.COQ_CTY[c["rty"]], i, coq_vals(init), byte) for init, byte in c["envs"])
        L.append("Definition case%d := (%d, src_bits s%d, [%s], [%s])." % (i, i, i, ties, rows))
        names.append("case%d" % i)
    L.append("Eval vm_compute in [%s]." % "; ".join(names))
    open(path, "w").write("\n".join(L) + "\n")


def parse_coq_list(out):
    m = re.search(r"=\s*(\[.*\])\s*:\s*list", out, re.S)
    if not m:
        return None
    txt = m.group(1).replace(";", ",").replace("\n", " ")
    return pyast.literal_eval(txt)


def parse_outs(line, cp):
    p = cdrv.parse_line(line)
    if p is None:
        return None
    fields = p["outs"].split(",")
    if len(fields) != len(cp.outs):
        return None
    d = {"code": p["code"]}
    for o, f in zip(cp.outs, fields):
        d[o["name"]] = f
    return d


def used_values(tree, ctxv, byte):
    names = set()
    def go(e):
        if e[0] in ("var", "len", "idx"):
            names.add(e[1])
        for x in e[1:]:
            if isinstance(x, tuple):
                go(x)
    go(tree)
    parts = ["%s=%s" % (n, ctxv[n] if not isinstance(ctxv[n], list) else "[" + ".".join(map(str, ctxv[n])) + "]") for n in sorted(names)]
    if exprgen.uses(tree, "last"):
        parts.append("$last=%d" % byte)
    return ",".join(parts)


# ---------------------------------------------------------------------------
# the correspondence
# ---------------------------------------------------------------------------
def gen_cases(ctx, n_random, search_only=False):
    rng = ctx.rng
    cases = []
    seen = set()
    def add(tree, ety, origin):
        tree = exprgen.fix_enum(tree)
        par = exprgen.parenthesize(tree, rng if origin == "random" else None)
        txt = exprgen.text(par)
        if txt in seen:
            return
        seen.add(txt)
        has_last = exprgen.uses(par, "last")
        if ety == "int":
            io_int = exprgen.uses(par, "bool") and origin == "random-intlit"
            kinds = ["assign"] if io_int else ["assign", "append", "conda"] + ([] if has_last else ["condp"])
        elif ety == "boolpure":
            kinds = ["assignb", "conda"] + ([] if has_last else ["condp"])
        else:
            kinds = ["conda"] + ([] if has_last else ["condp"])
        rdecl, rty = rng.choice(exprgen.RESULT_TYPES)
        flags = rng.choice([[], [], [], ["-O2"], ["-O3"], ["-fstrings-as-u8"], ["-funsafe-string-indexing"], ["-O0"]]) if origin.startswith("random") else []
        if "-funsafe-string-indexing" in flags and not small_indices(par):
            flags = []          # an unchecked wild index would crash the driver instead of giving a value
        cases.append((par, ety, kinds, rdecl, rty, flags, origin))
    def small_indices(e):
        if e[0] == "idx":
            return e[2][0] == "num" and 0 <= e[2][1] < 4
        return all(small_indices(x) for x in e[1:] if isinstance(x, tuple))
    for tree, ety in exprgen.targeted_cases():
        add(tree, ety, "targeted")
    # every sized result type receives out-of-range values
    for rdecl, rty in exprgen.RESULT_TYPES:
        for tree in (("bin", "*", ("var", "e"), ("num", 6)), ("bin", "-", ("var", "g"), ("num", 400)), ("bin", "+", ("var", "h"), ("var", "f"))):
            par = exprgen.parenthesize(tree)
            cases.append((par, "int", ["assign"], rdecl, rty, [], "store"))
    if not search_only or n_random:
        for i in range(n_random):
            g = exprgen.ExprGen(rng, max_depth=rng.choice([2, 3, 3, 4]))
            k = rng.random()
            if k < 0.5:
                add(g.int_expr(0, None), "int", "random")
            elif k < 0.6:
                add(g.int_expr(0, "int"), "int", "random-intlit")
            elif k < 0.9:
                add(g.bool_expr(0, None), "bool", "random")
            else:
                add(g.bool_expr(0, None, pure=True), "boolpure", "random")
    return cases


def correspondence(ctx, n_random, n_ctx, use_reference=False, broken=None):
    rng = ctx.rng
    wd_root = os.path.join(BUILD, "c14")
    shutil.rmtree(wd_root, ignore_errors=True)
    os.makedirs(wd_root, exist_ok=True)
    specs = gen_cases(ctx, n_random)
    prepared, rejected, tie_errors = [], collections.Counter(), []
    for idx, (tree, ety, kinds, rdecl, rty, flags, origin) in enumerate(specs):
        c = prepare_case(idx, tree, ety, kinds, rdecl, rty, flags)
        c["origin"] = origin
        if c.get("tie_error"):
            tie_errors.append(c)
        elif not c["ok"]:
            rejected[c["why"].split(":")[0] + ":" + c["why"].split(":", 1)[1].strip()[:40]] += 1
            if origin in ("targeted", "store"):
                c["rejected_targeted"] = True
                tie_errors.append(dict(c, tie_error="a targeted well-typed expression is rejected by the compiler: " + c["why"]))
        else:
            prepared.append(c)
    for c in tie_errors[:3]:
        ctx.violation("tie:%s:%s" % (c["text"], c["tie_error"][:60]),
                      "the emitted C / the compiled tree for [%s] cannot be related to the model: %s" % (c["text"], c["tie_error"]),
                      {"program": c["src"], "flags": c["flags"], "expression": c["text"], "broken": broken or "correspondence ExprModel vs implementation",
                       "error": c["tie_error"]}, found_input=True)
    # gcc builds in parallel
    def build(c):
        wd = os.path.join(wd_root, "p%05d" % c["idx"])
        P = cdrv.prepare_build(c["P"], wd)
        c["P"] = P
        return c
    with ThreadPoolExecutor(max_workers=common.NCPU) as ex:
        prepared = list(ex.map(build, prepared))
    build_fail = [c for c in prepared if not c["P"]["ok"]]
    for c in build_fail[:2]:
        ctx.violation("c-build:%s" % c["text"], "the C generated for [%s] does not compile: %s" % (c["text"], c["P"].get("build_output", "")[-200:]),
                      {"program": c["src"], "flags": c["flags"], "expression": c["text"], "gcc": c["P"].get("build_output")})
    prepared = [c for c in prepared if c["P"]["ok"]]
    # runs
    def run(c):
        P = c["P"]
        cp = P["cp"]
        ctxs = value_contexts(rng_for(c), n_ctx, c["tree"])
        bytes_ = [0, 97, 255] if exprgen.uses(c["tree"], "last") else [97]
        cmds, envs, meta = [], [], []
        for cv in ctxs:
            init = cp.init_vals(overrides=cv)
            cmds.append(init)
            for b in bytes_:
                cmds.append("stepn %d 2 %d 121" % (P["m"]["start"], b))
                envs.append((init, b)); meta.append((cv, b))
        text = "\n".join(cmds) + "\n"
        rc1, cl, cerr = cdrv.run_c(P["wd"], text, timeout=60)
        if rc1 != 0 or len(cl) != len(envs):
            # the binary died (division by zero traps): one process per evaluation, a dead one prints CRASH
            cl = []
            for init, b in envs:
                rcx, lx, ex_ = cdrv.run_c(P["wd"], "%s\nstepn %d 2 %d 121\n" % (init, P["m"]["start"], b), timeout=20)
                cl.append(lx[0] if (rcx == 0 and lx) else "CRASH rc=%s" % rcx)
        rc2, ml, merr = cdrv.run_model(P["dfa_text"], P["cfg_text"], text, timeout=120)
        c.update(envs=envs, meta=meta, c_lines=cl, m_lines=ml, rc=(rc1, rc2), err=(cerr[-300:], merr[-300:]))
        shutil.rmtree(P["wd"], ignore_errors=True)
        return c
    seeds = {c["idx"]: rng.getrandbits(48) for c in prepared}
    import random as _random
    def rng_for(c):
        return _random.Random(seeds[c["idx"]])
    with ThreadPoolExecutor(max_workers=common.NCPU) as ex:
        prepared = list(ex.map(run, prepared))
    # Coq: ties + expected values
    SH = 40
    shards = [prepared[k:k + SH] for k in range(0, len(prepared), SH)]
    paths = []
    for si, shard in enumerate(shards):
        p = os.path.join(wd_root, "cases_c14_%03d.v" % si)
        write_cases(shard, p, use_reference)
        paths.append(p)
    with ThreadPoolExecutor(max_workers=common.NCPU) as ex:
        outs = list(ex.map(lambda p_: common.coqc_file(p_, timeout=900), paths))
    if any(rc != 0 and "inconsistent assumptions" in out for rc, out in outs):
        # somebody rebuilt a library underneath us: rebuild ours and try the failed shards once more
        build_proofs(ctx, upto_props=False)
        outs = [common.coqc_file(p_, timeout=900) if (rc != 0 and "inconsistent assumptions" in out) else (rc, out) for p_, (rc, out) in zip(paths, outs)]
    stats = collections.Counter()
    pending = []          # (class, expression size, key, what, replay): reported smallest first, a few per class
    def pend(cls, c, key, what, replay):
        pending.append((cls, exprgen.size(c["tree"]) if c else 0, key, what, replay))
    ops_seen = set()
    nviol = 0
    TIE_NAMES = ["desugar (to_nexpr/to_cond vs the compiler's IntegerExpr tree)", "fold (vs cdrv.CfgPrinter.expr)", "render (vs the emitted C tokens)",
                 "cparse of the emitted C tokens", "nvalid"]
    for shard, (rc, out) in zip(shards, outs):
        res = parse_coq_list(out) if rc == 0 else None
        if res is None:
            ctx.violation("cases-build", "a generated correspondence file does not compile", {"broken": broken or "correspondence (Coq cases file)", "output": out[-2500:]}, found_input=False)
            continue
        for c, (i, srcb, ties, rows) in zip(shard, res):
            assert i == c["idx"]
            stats["expressions"] += 1
            ops_seen |= exprgen.operators(c["tree"])
            cp = c["P"]["cp"]
            if srcb != [1, 1]:
                nviol += 1
                what = "is not derivable from the regenerated grammar layers" if srcb[0] == 0 else "is not parsed by the C parser to its own tree"
                pend("source-tree", c, "source-tree:%s" % c["text"], "the source text [%s], accepted by the compiler, %s" % (c["text"], what),
                              {"program": c["src"], "expression": c["text"], "bits": srcb, "broken": broken or "same_tree correspondence"})
            for t, bits in zip(c["ties"], ties):
                stats["ties_checked"] += 1
                if bits != [1, 1, 1, 1, 1]:
                    nviol += 1
                    which = [TIE_NAMES[k] for k, b in enumerate(bits) if b == 0]
                    pend("tie", c, "tie:%s:%s:%s" % (c["text"], t["kind"], which[0][:12]),
                                  "for [%s] in context %s the model and the implementation differ in: %s" % (c["text"], t["kind"], "; ".join(which)),
                                  {"program": c["src"], "flags": c["flags"], "expression": c["text"], "context": t["kind"], "emitted_c": t["ctext"],
                                   "compiler_tree": t["n"], "exported_tree": t["ie"], "c_tokens": t["ctoks"], "bits": bits,
                                   "broken": broken or "correspondence ExprModel vs implementation"})
            if c["rc"][1] != 0:
                ctx.violation("crun:%s" % c["text"], "the extracted model runner failed: %s" % c["err"][1], {"program": c["src"], "broken": "extraction"}, found_input=False)
                continue
            d, undef = cdrv.compare(c["c_lines"], c["m_lines"], c["P"]["direct"])
            stats["model_undef"] += undef
            first_model_diff = d[0] if d else None
            for k, ((init, byte), (cv, _), row) in enumerate(zip(c["envs"], c["meta"], rows)):
                stats["evaluations"] += 1
                line = c["c_lines"][k] if k < len(c["c_lines"]) else "<missing>"
                obs = parse_outs(line, cp)
                if row[0] == 0:
                    stats["undefined_in_C_skipped"] += 1
                    continue
                _, er, ebyte, etruth, ebool = row
                exp, got = {}, {}
                if obs is None:
                    got = {"line": line}; exp = {"line": "parsable"}
                else:
                    if "assign" in c["kinds"]:
                        exp["r"] = er; got["r"] = int(obs["r"])
                    if "assignb" in c["kinds"]:
                        exp["rb"] = ebool; got["rb"] = int(obs["rb"])
                    if "append" in c["kinds"]:
                        exp["t"] = "1:%02x:T1" % ebyte; got["t"] = obs["t"]
                    if "conda" in c["kinds"]:
                        exp["c1"] = 1 if etruth else 2; got["c1"] = int(obs["c1"])
                    if "condp" in c["kinds"]:
                        exp["c2"] = 1 if etruth else 2; got["c2"] = int(obs["c2"])
                    exp["code"] = "DONE"; got["code"] = obs["code"]
                if exp != got:
                    nviol += 1
                    vals = used_values(c["tree"], cv, byte)
                    bad = sorted(k2 for k2 in exp if exp[k2] != got.get(k2))
                    pend("value", c, "value:[%s]:%s:%s" % (c["text"], vals, ",".join(bad)),
                                  "[%s] with %s: C arithmetic on the source text gives %s, the generated parser stored %s" % (
                                      c["text"], vals or "no variables", {k2: exp[k2] for k2 in bad}, {k2: got.get(k2) for k2 in bad}),
                                  {"program": c["src"], "flags": c["flags"], "expression": c["text"], "input_bytes": [byte, 121], "init": init,
                                   "command": "stepn %d 2 %d 121" % (c["P"]["m"]["start"], byte), "variables": {k2: v for k2, v in cv.items()},
                                   "expected": exp, "observed": got, "result_type": c["rty"], "c_line": line,
                                   "broken": broken or "value correspondence (gcc-built parser vs C semantics of the source text)"})
                    break
                stats["defined_and_equal"] += 1
            if first_model_diff is not None:
                i0, cl, ml = first_model_diff
                cv, byte = c["meta"][i0] if i0 < len(c["meta"]) else ({}, 0)
                nviol += 1
                pend("c-vs-model", c, "c-vs-model:[%s]:%s" % (c["text"], used_values(c["tree"], cv, byte) if cv else ""),
                              "[%s]: the gcc-built parser and the extracted model (CArith.ceval on the exported tree) disagree" % c["text"],
                              {"program": c["src"], "flags": c["flags"], "expression": c["text"], "c_line": cl, "model_line": ml,
                               "init": c["envs"][i0][0] if i0 < len(c["envs"]) else None, "broken": broken or "CArith vs gcc"})
    LIMIT = {"value": 4, "c-vs-model": 2, "tie": 3, "source-tree": 2}
    byclass = collections.Counter(p_[0] for p_ in pending)
    for cls in ("value", "c-vs-model", "tie", "source-tree"):
        for (_, _, key, what, replay) in sorted([p_ for p_ in pending if p_[0] == cls], key=lambda p_: (p_[1], p_[2]))[:LIMIT[cls]]:
            ctx.violation(key, what, replay)
    if pending:
        ctx.coverage["mismatches_by_class"] = dict(byclass)
    origin_counts = collections.Counter(c["origin"] for c in prepared)
    ctx.coverage.update({
        "evaluations": stats["evaluations"], "distinct_nontrivial": stats["expressions"],
        "expressions_compiled_and_run": stats["expressions"], "expression_contexts_tied": stats["ties_checked"],
        "evaluations_defined_and_equal": stats["defined_and_equal"], "evaluations_undefined_in_C_skipped": stats["undefined_in_C_skipped"],
        "model_undefined_lines": stats["model_undef"], "rejected_by_compiler": dict(rejected), "c_build_failures": len(build_fail),
        "origins": dict(origin_counts), "operators_and_atoms_seen": sorted(ops_seen),
        "rule": "targeted: every ordered pair of binary operators in both nestings + prefix operators over every binary operator + every result type with out-of-range values; "
                "random: well-typed trees (depth 2-4) over all operators and atoms, minimal parentheses by C's table (+ nmfu's stricter forms); "
                "each in assignment / append / conditional action / if statement, %d valuations (boundary values of every declared type) x $last in {0,97,255}" % n_ctx,
    })
    for c in prepared[:: max(1, len(prepared) // 6)][:6]:
        ctx.samples.append({"expression": c["text"], "contexts": c["kinds"], "flags": c["flags"], "emitted_c": c["ties"][0]["ctext"],
                            "first_c_line": c["c_lines"][0] if c["c_lines"] else None})
    return nviol + len(tie_errors) + len(build_fail)


def replay(ctx, path):
    """re-run exactly the recorded case (program, flags, variable values, input bytes) on the current tree"""
    rec = json.load(open(path))
    if "program" not in rec or "command" not in rec:
        print("replay: %s records no runnable input (%s)" % (path, rec.get("what")))
        return 2
    I = export.Interner()
    res = nm.compile_source(rec["program"], rec.get("flags", []), want_c=True, name="prog", interner=I)
    if res["verdict"] != "ok":
        print("replay: the program is now %s: %s" % (res["verdict"], res["message"][:200]))
        return 1
    m = res["machines"]["post_optimize"]
    cp = cdrv.CfgPrinter(m, I, rec.get("flags", []))
    P = {"ok": True, "m": m, "I": I, "cp": cp, "c": res["c"], "h": res["h"], "flags": rec.get("flags", []), "src": rec["program"]}
    wd = os.path.join(BUILD, "c14_replay")
    P = cdrv.prepare_build(P, wd)
    if not P["ok"]:
        print("replay: generated C does not build: %s" % P.get("build_output"))
        return 1
    rc, lines, err = cdrv.run_c(wd, "%s\n%s\n" % (rec["init"], rec["command"]), timeout=20)
    shutil.rmtree(wd, ignore_errors=True)
    obs = parse_outs(lines[0], cp) if lines else None
    exp = rec.get("expected", {})
    got = {k: (obs.get(k) if obs else None) for k in exp}
    got = {k: (int(v) if isinstance(exp[k], int) and v is not None and re.fullmatch(r"-?\d+", str(v)) else v) for k, v in got.items()}
    print("expression: [%s]" % rec.get("expression"))
    print("expected (C arithmetic on the source text): %s" % exp)
    print("observed (generated parser, current tree):  %s" % got)
    same = exp == got
    print("REPRODUCED" if not same else "no longer reproduces")
    return 0 if same else 1


def regenerate(ctx):
    """(setup) write coq/Gen/GGrammar.v from the current source so that the project builds"""
    import grammar2coq
    try:
        text, g, its = grammar2coq.emit(os.path.join(common.REPO, "nmfu.py"))
    except grammar2coq.Unsupported as e:
        return str(e)
    common.write_if_changed(os.path.join(COQ, "Gen", "GGrammar.v"), text)
    return None


def run(ctx):
    import grammar2coq
    quick = ctx.tier == "quick"
    props = os.path.join(COQ, "Props", "C14.v")
    ctx.obligations = len(re.findall(r"^Print Assumptions", open(props).read(), re.M))
    ctx.trusted += ["translator/grammar2coq.py (grammar string -> layer table; _integer_containing evaluated on the declarable widths)",
                    "specifications: coq/Expr/CArith.v + ExprModel.cceval (LP64 C arithmetic, C11 6.5.3.3 prefix operators), coq/Expr/CParse.v (C's operator grammar), cross-checked against gcc on every run",
                    "harness/exprgen.py printer, harness/props/c14.py C tokeniser (recognises the bounds-check template around indexed reads), harness/cdrv.py driver, extraction of CSkel.Run (crun)",
                    "gcc 12 / x86-64 as the meaning of the emitted C"]
    ctx.assumptions += ["values within the defined range of C arithmetic: evaluations the C semantics leaves undefined (signed overflow, division by zero, shift out of range, literals above 2^63-1, unchecked out-of-range index) are counted and skipped",
                        "number literals are read by value (C15 covers their spelling); nmfu prints them in decimal, so a hexadecimal spelling 0x80000000..0xffffffff has type long in the emitted C where C itself would type the hexadecimal spelling unsigned int",
                        "lark's parse of the source text is taken from the real compiler (its tree is compared with the model's on every run)",
                        "modelled, not verified: the exporter's n-ary to binary folding is proved equal to C's reading of the emitted text (render_parses) only for the token language of CParse; the bounds-check template is matched textually and its meaning proved in guard_is_checked_read"]
    err = mach.ensure_machk()
    if err or not os.path.exists(cdrv.CRUN):
        ctx.violation("crun-build", "the extracted model runner does not build: " + str(err)[:200], {"broken": "extraction"}, found_input=False)
        return
    # 1. regenerate
    broken, use_reference = None, False
    try:
        text, g, its = grammar2coq.emit(os.path.join(common.REPO, "nmfu.py"))
        common.write_if_changed(os.path.join(COQ, "Gen", "GGrammar.v"), text)
        ctx.coverage["grammar_layers"] = [{"rule": n, "operators": ops, "chain": ch} for n, _, ch, ops in g["layers"]]
        ctx.coverage["int_types"] = ["%s/%s -> %s" % (w, "signed" if sg else "unsigned", t) for w, sg, t in its]
    except grammar2coq.Unsupported as e:
        broken = "translator (Tie 1) for Gen/GGrammar.v: %s" % e
        use_reference = True
        ctx.log("translator failed closed:", e)
    # 2. proofs + audit
    out = ""
    if broken is None:
        broken, out = build_proofs(ctx)
        if broken:
            ctx.log("proof build failed at", broken)
            ctx.notes.append("coq output: " + out[-600:])
            # GGrammar itself may still be usable for the cases files
            if not os.path.exists(os.path.join(COQ, "Gen", "GGrammar.vo")) or stale("Gen/GGrammar.v"):
                use_reference = True
        else:
            blocks = common.parse_assumptions(out)
            ctx.discharged = sum(1 for b in blocks if b == "closed")
            axioms = [b for b in blocks if b != "closed"]
            ctx.coverage["print_assumptions"] = "%d theorems: Closed under the global context" % ctx.discharged + ("; AXIOMS: %r" % axioms if axioms else "")
            if axioms or ctx.discharged != ctx.obligations:
                ctx.violation("axioms", "property theorems depend on axioms or are missing: %r" % axioms, {"broken": "Print Assumptions audit", "output": out[-2000:]}, found_input=False)
    else:
        with common.Lock("coq"):
            for rel in ("Expr/CParse.v", "Expr/ExprModel.v"):
                if stale(rel):
                    coqc(rel)
    hits = [h for h in common.coq_audit_sources() if h.startswith(("Expr/", "Props/C14", "Gen/GGrammar"))]
    if hits:
        ctx.violation("forbidden-vernacular", "forbidden vernacular in the development: %s" % hits[:3], {"hits": hits}, found_input=False)
    # 3. correspondence (= the search for a failing input when something above broke)
    n_random = (260 if quick else 3000) if broken is None else (300 if quick else 1500)
    found = correspondence(ctx, n_random, 3 if quick else 6, use_reference=use_reference, broken=broken)
    if broken and not found:
        ctx.violation("proof-broken:" + broken.split(":")[0] + ":" + broken.split(":")[-1][:60],
                      "theorem / tie no longer checks and no failing input was found: " + broken,
                      {"broken": broken, "coq_output": out[-2500:]}, found_input=False)
    ctx.coverage["checker_cmd"] = "coqc -Q coq NV coq/{Expr/CParse,Expr/ExprModel,Gen/GGrammar,Expr/ExprProps,Props/C14}.v (Print Assumptions under every theorem) + build/c14/cases_c14_*.v (vm_compute)"
    ctx.coverage["theorems"] = re.findall(r"^Theorem (\w+)", open(props).read(), re.M)
    ctx.samples.append({"theorem": "c14_source_and_emitted_agree",
                        "statement": "forall tenv s io, wf n_tab 0 s = true -> consts_ok s = true -> exists ts te, cparse (tok s) = Some ts /\\ cparse (render (to_nexpr n_tab tenv io s)) = Some te /\\ forall E, cceval E ts = cceval E te"})
