"""C15 - literals denote exactly the bytes and values they spell.

Tie 1 (translator): Gen/GLit.v is regenerated from /repo/nmfu.py, the theorems of
coq/Props/C15.v are re-checked against it.  The PyLite reading is validated against CPython
on enumerated inputs (correspondence), and when a proof breaks the specification is evaluated
against the regenerated functions inside Coq to find a failing input, which is then replayed
on the Python functions / through gcc.
"""
import os, sys, re, itertools, json, tempfile, shutil
import common
from common import COQ, BUILD, VERIF, sh

LEVEL = "proof"
sys.path.insert(0, os.path.join(VERIF, "translator"))

SPECS = [
    ("ParseCtx._convert_char_const", "convert_char_const", {"char_const": "str"}, "str"),
    ("ParseCtx._convert_int", "convert_int", {"text": "str"}, "int"),
    ("ParseCtx._convert_string", "convert_string", {"escaped_string": "str"}, "str"),
    ("ParseCtx._convert_binary_string", "convert_binary_string", {"binary_string": "str"}, "str"),
    ("CodegenCtx._escape_string", "escape_string_str", {"value": "str"}, "str"),
    ("CodegenCtx._escape_string", "escape_string_bytes", {"value": "bytes"}, "str"),
    ("CodegenCtx._integer_containing", "integer_containing", {"maxval": "optint", "signed": "bool", "width": "optint"}, "str"),
    ("CaseDirectMatch._create_casei_from", "create_casei_from", {"character": "str"}, "strlist"),
]


def regenerate(ctx):
    import pylite2coq
    try:
        text = pylite2coq.translate_functions(os.path.join(common.REPO, "nmfu.py"), SPECS)
    except pylite2coq.Unsupported as e:
        return str(e)
    common.write_if_changed(os.path.join(COQ, "Gen", "GLit.v"), text)
    return None


# ---------------------------------------------------------------------------
# Python mirrors of the specification (used only to confirm a counterexample on the implementation)
# ---------------------------------------------------------------------------
SIMPLE = {110: 10, 114: 13, 116: 9, 98: 8, 48: 0, 34: 34, 92: 92}
CHAR_ESC = {110: 10, 114: 13, 116: 9, 98: 8, 48: 0, 39: 39, 92: 92, 34: 34}


def hexval(c):
    ch = chr(c)
    return int(ch, 16) if ch in "0123456789abcdefABCDEF" else None


def spec_decode(s):
    out, i = [], 0
    while i < len(s):
        c = s[i]
        if c != 92:
            if c > 255:
                return None
            out.append(c); i += 1
        elif i + 1 >= len(s):
            return None
        elif s[i + 1] == 120:
            if i + 3 >= len(s) or hexval(s[i + 2]) is None or hexval(s[i + 3]) is None:
                return None
            out.append(16 * hexval(s[i + 2]) + hexval(s[i + 3])); i += 4
        elif s[i + 1] in SIMPLE:
            out.append(SIMPLE[s[i + 1]]); i += 2
        else:
            return None
    return out


def py_outcome(fn, *args):
    """run a Python function, map the outcome to the PyLite result vocabulary"""
    import nmfu
    try:
        return ("Ok", fn(*args))
    except nmfu.NMFUError:
        return ("Raise", "Diagnosed")
    except (KeyError, IndexError, ValueError, TypeError, NotImplementedError) as e:
        if isinstance(e, UnicodeError):
            return ("Raise", "OtherError")
        return ("Raise", type(e).__name__)
    except Exception:
        return ("Raise", "OtherError")


def coq_pystr(s):
    cps = [ord(c) for c in s] if isinstance(s, str) else list(s)
    return "[" + "; ".join("%d" % c for c in cps) + "]%N" if cps else "(@nil N)"


def coq_res(out, kind):
    if out[0] == "Raise":
        return "(Raise %s)" % out[1]
    v = out[1]
    if kind == "str":
        return "(Ok %s)" % coq_pystr(v)
    if kind == "int":
        return "(Ok (%d)%%Z)" % v
    if kind == "strlist":
        return "(Ok [%s])" % "; ".join(coq_pystr(x) for x in v)
    raise ValueError(kind)


def pylite_correspondence(ctx):
    """translated functions vs the Python functions on enumerated inputs, compared inside Coq"""
    import nmfu
    P, C = nmfu.ParseCtx, nmfu.CodegenCtx
    rng = ctx.rng
    alpha = ['a', '0', 'f', 'x', 'n', '\\', '"', '\xff', '9', 'q', ' ', '_', '+', 'u', 'G', '€']
    bodies = [""]
    for n in (1, 2, 3):
        bodies += ["".join(t) for t in itertools.product(alpha[:11], repeat=n)] if n < 3 else \
                  ["".join(rng.choice(alpha) for _ in range(rng.randint(3, 7))) for _ in range(500)]
    bodies += ["\\x" + a + b for a in "0fFgx+- _" for b in "09aF_ +"]
    cases = {"str_str": [], "str_int": [], "bytes_str": [], "str_strlist": [], "ic": []}
    n_raise = 0
    for b in bodies:
        q = '"' + b + '"'
        cases["str_str"].append(("convert_string 64", q, py_outcome(P._convert_string, None, q)))
        cases["str_str"].append(("convert_binary_string", q, py_outcome(P._convert_binary_string, None, q)))
    for c in [chr(i) for i in range(0, 256, 5)] + list("nrtb0'\\\"xq"):
        for tok in ("'" + c + "'", "'\\" + c + "'"):
            cases["str_str"].append(("convert_char_const", tok, py_outcome(P._convert_char_const, None, tok)))
    ints = []
    for sign in ("", "+", "-"):
        for body in ("0", "7", "10", "007", "123456789012345678901", "0x0", "0xff", "0xFF", "0xdeadBEEF", "0x0b1", "0b0", "0b101", "0b1111111111", "0x", "0b", "", "1_0", "0x_f", " 5", "0b2", "0xg", "9" * 30):
            ints.append(sign + body)
    for t in ints:
        if t:
            cases["str_int"].append(("convert_int", t, py_outcome(P._convert_int, None, t)))
    for n in range(256):
        cases["bytes_str"].append(("escape_string_bytes", [n], py_outcome(C._escape_string, None, bytes([n]))))
        cases["str_str"].append(("escape_string_str", chr(n), py_outcome(C._escape_string, None, chr(n))))
        cases["str_strlist"].append(("create_casei_from", chr(n), py_outcome(nmfu.CaseDirectMatch._create_casei_from, None, chr(n))))
    for _ in range(200):
        bs = [rng.randrange(256) for _ in range(rng.randint(2, 6))]
        cases["bytes_str"].append(("escape_string_bytes", bs, py_outcome(C._escape_string, None, bytes(bs))))
    cases["str_str"].append(("escape_string_str", "a€b", py_outcome(C._escape_string, None, "a€b")))
    for signed in (True, False):
        for width in (None, 1, 2, 3, 4, 8, 16):
            for maxval in (None, 0, 127, 128, 255, 256, 32767, 32768, 65535, 65536, 2**31 - 1, 2**31, 2**32 - 1, 2**32, 2**63):
                out = py_outcome(C._integer_containing, None, maxval, signed, width)
                cases["ic"].append((maxval, signed, width, out))
    total = sum(len(v) for v in cases.values())
    for fam in cases.values():
        for c in fam:
            if c[-1][0] == "Raise":
                n_raise += 1
    # emit the comparison files (sharded: elaboration of big literals is slow, so run shards in parallel)
    PRE = ["From Coq Require Import ZArith NArith List Bool.", "Import ListNotations.",
         "From NV Require Import Base.PyLite Gen.GLit.",
         "Definition exn_eqb (a b : exn) : bool := match a, b with KeyError, KeyError | IndexError, IndexError | ValueError, ValueError | TypeError, TypeError | NotImplementedError, NotImplementedError | OtherError, OtherError | Diagnosed, Diagnosed => true | _, _ => false end.",
         "Definition res_eqb {A} (eqb : A -> A -> bool) (a b : pyres A) : bool := match a, b with Ok x, Ok y => eqb x y | Raise e, Raise f => exn_eqb e f | Fuel, Fuel => true | _, _ => false end.",
         "Fixpoint sl_eqb (a b : list pystr) : bool := match a, b with [], [] => true | x :: a', y :: b' => str_eqb x y && sl_eqb a' b' | _, _ => false end.",
         "Definition oz (n : Z) : option Z := Some n."]
    optz = lambda v: "None" if v is None else "(oz (%d)%%Z)" % v
    flat = []   # (family, index, lhs, rhs, eqb)
    for i, (f, a, o) in enumerate(cases["str_str"]):
        flat.append(("str_str", i, "%s %s" % (f, coq_pystr(a)), coq_res(o, "str"), "str_eqb"))
    for i, (f, a, o) in enumerate(cases["str_int"]):
        flat.append(("str_int", i, "%s %s" % (f, coq_pystr(a)), coq_res(o, "int"), "Z.eqb"))
    for i, (f, a, o) in enumerate(cases["bytes_str"]):
        flat.append(("bytes_str", i, "%s [%s]%%Z" % (f, "; ".join(map(str, a))), coq_res(o, "str"), "str_eqb"))
    for i, (f, a, o) in enumerate(cases["str_strlist"]):
        flat.append(("str_strlist", i, "%s %s" % (f, coq_pystr(a)), coq_res(o, "strlist"), "sl_eqb"))
    for i, (m, sg, w, o) in enumerate(cases["ic"]):
        flat.append(("ic", i, "integer_containing %s %s %s" % (optz(m), "true" if sg else "false", optz(w)), coq_res(o, "str"), "str_eqb"))
    d = os.path.join(BUILD, "c15")
    shutil.rmtree(d, ignore_errors=True)
    os.makedirs(d, exist_ok=True)
    SH = 150
    shards = [flat[k:k + SH] for k in range(0, len(flat), SH)]
    paths = []
    for si, shard in enumerate(shards):
        L = list(PRE)
        L.append("Definition bad : list nat := map fst (filter (fun c => negb (snd c)) [")
        L.append(";\n".join("(%d%%nat, res_eqb %s (%s) %s)" % (k, eqb, lhs, rhs) for k, (_, _, lhs, rhs, eqb) in enumerate(shard)))
        L.append("]).")
        L.append("Eval vm_compute in bad.")
        path = os.path.join(d, "cases_c15_%03d.v" % si)
        open(path, "w").write("\n".join(L) + "\n")
        paths.append(path)
    from concurrent.futures import ThreadPoolExecutor
    with ThreadPoolExecutor(max_workers=common.NCPU) as ex:
        outs = list(ex.map(lambda p_: common.coqc_file(p_, timeout=600), paths))
    for shard, (rc, out) in zip(shards, outs):
        m = re.search(r"=\s*(\[[^\]]*\]|nil)", out.replace("\n", " "))
        if rc != 0 or not m:
            ctx.violation("pylite-correspondence-build", "a PyLite correspondence shard does not compile",
                          {"broken": "correspondence PyLite-vs-CPython", "output": out[-3000:]}, found_input=False)
            continue
        for b in [int(x) for x in re.findall(r"\d+", m.group(1))][:3]:
            fam, idx = shard[b][0], shard[b][1]
            c = cases[fam][idx]
            ctx.violation("pylite-mismatch:%s:%r" % (fam, c[:-1]),
                          "translated model and CPython disagree (the tie between Gen/GLit.v and nmfu.py is broken)",
                          {"broken": "correspondence PyLite-vs-CPython", "case": repr(c[:-1]), "python_outcome": repr(c[-1])},
                          found_input=True)
    ctx.coverage["pylite_cases"] = total
    ctx.coverage["pylite_cases_raising"] = n_raise
    ctx.samples.append({"pylite_case": repr(cases["str_str"][37][:2]), "python_outcome": repr(cases["str_str"][37][2])})
    return total, n_raise


def theorem_at(path, line):
    name = None
    for n, l in enumerate(open(path), 1):
        m = re.match(r"\s*(Theorem|Lemma|Example|Corollary)\s+(\w+)", l)
        if m:
            name = m.group(2)
        if n >= line:
            break
    return name


def gcc_lex(escaped):
    """what gcc makes of "<escaped>" as a string literal: list of bytes (without terminator) or None"""
    d = tempfile.mkdtemp(prefix="c15_", dir=BUILD)
    try:
        src = '#include <stdio.h>\nstatic const char s[] = "%s";\nint main(void){ for (unsigned i = 0; i + 1 < sizeof s; i++) printf("%%d ", (unsigned char)s[i]); return 0; }\n' % escaped
        open(os.path.join(d, "t.c"), "w").write(src)
        rc, out = sh(["gcc", "-std=c99", "-w", "-o", os.path.join(d, "t"), os.path.join(d, "t.c")], timeout=60)
        if rc != 0:
            return None
        rc, out = sh([os.path.join(d, "t")], timeout=10)
        return [int(x) for x in out.split()]
    finally:
        shutil.rmtree(d, ignore_errors=True)


def gcc_lex_many(escaped_list):
    """gcc's reading of many string literals at once -> list of byte lists (None on compile failure)"""
    d = tempfile.mkdtemp(prefix="c15_", dir=BUILD)
    try:
        L = ["#include <stdio.h>"]
        for i, e in enumerate(escaped_list):
            L.append('static const char s%d[] = "%s";' % (i, e))
        L.append("int main(void){")
        for i in range(len(escaped_list)):
            L.append('for (unsigned i = 0; i + 1 < sizeof s%d; i++) printf("%%d ", (unsigned char)s%d[i]); printf("\\n");' % (i, i))
        L.append("return 0;}")
        open(os.path.join(d, "t.c"), "w").write("\n".join(L))
        rc, out = sh(["gcc", "-std=c99", "-w", "-o", os.path.join(d, "t"), os.path.join(d, "t.c")], timeout=120)
        if rc != 0:
            return None
        rc, out = sh([os.path.join(d, "t")], timeout=20)
        return [[int(x) for x in l.split()] for l in out.split("\n")[:len(escaped_list)]]
    finally:
        shutil.rmtree(d, ignore_errors=True)


def python_search(ctx, broken):
    """specification (Python mirror) vs the implementation's functions on exhaustive small domains"""
    import nmfu
    P, C = nmfu.ParseCtx, nmfu.CodegenCtx
    found = False
    for c in range(256):
        ch = chr(c)
        exp = sorted([ch, ch.swapcase()]) if ch.isascii() and ch.isalpha() else [ch]
        got = py_outcome(nmfu.CaseDirectMatch._create_casei_from, None, ch)
        if got[0] != "Ok" or sorted(got[1]) != exp:
            ctx.violation("casei:%d" % c, "case-insensitive literal: byte %d (%r) is matched by %r, expected %r" % (c, ch, got, exp),
                          {"broken": broken, "input_byte": c, "observed": repr(got), "expected": exp})
            return True
    for c in range(256):
        if c in (39, 92):
            continue
        tok = "'" + chr(c) + "'"
        got = py_outcome(P._convert_char_const, None, tok)
        if got != ("Ok", chr(c)):
            ctx.violation("char-const:%r" % tok, "character constant %r gives %r" % (tok, got), {"broken": broken, "input": tok, "observed": repr(got)})
            return True
    for c, v in CHAR_ESC.items():
        tok = "'\\" + chr(c) + "'"
        got = py_outcome(P._convert_char_const, None, tok)
        if got != ("Ok", chr(v)):
            ctx.violation("char-const:%s" % tok, "character constant %s should denote %d, gives %r" % (tok, v, got),
                          {"broken": broken, "input": tok, "expected": v, "observed": repr(got)})
            return True
    alpha = [97, 48, 102, 120, 110, 92, 34, 255, 57, 116, 114, 98, 70]
    for n in range(0, 5):
        for body in itertools.product(alpha, repeat=n):
            exp = spec_decode(list(body))
            if exp is None:
                continue
            q = '"' + "".join(map(chr, body)) + '"'
            got = py_outcome(P._convert_string, None, q)
            if got != ("Ok", "".join(map(chr, exp))):
                ctx.violation("string-literal:%r" % q, "string literal %s denotes %r but _convert_string gives %r" % (q, exp, got),
                              {"broken": broken, "input": q, "expected_bytes": exp, "observed": repr(got)})
                return True
    for text in ["0", "7", "10", "255", "0x0", "0xff", "0xFF", "0x0b1", "0xdeadBEEF", "0b0", "0b101", "007", "4294967296", "0x10000000000000000"]:
        for sign in ("", "+", "-"):
            if sign and text.startswith("0b"):
                continue
            t = sign + text
            exp = int(t, 0) if not text.isdigit() else int(t)
            got = py_outcome(P._convert_int, None, t)
            if got != ("Ok", exp):
                ctx.violation("int-literal:%s" % t, "integer literal %s should be %d, _convert_int gives %r" % (t, exp, got),
                              {"broken": broken, "input": t, "expected": exp, "observed": repr(got)})
                return True
    for hexbody in ["", "00", "ff", "0a 1B", "deadBEEF", "7f80"]:
        exp = list(bytes.fromhex(hexbody))
        got = py_outcome(P._convert_binary_string, None, '"' + hexbody + '"')
        if got != ("Ok", "".join(map(chr, exp))):
            ctx.violation("binary-literal:%s" % hexbody, "binary string %r should be %r, gives %r" % (hexbody, exp, got),
                          {"broken": broken, "input": hexbody, "expected": exp, "observed": repr(got)})
            return True
    seqs = [[a, b] for a in range(256) for b in (0, 1, 48, 55, 56, 97, 102, 103, 34, 92, 63, 255, 127, 32)]
    for as_str in (False, True):
        outs = [py_outcome(C._escape_string, None, "".join(map(chr, bs)) if as_str else bytes(bs)) for bs in seqs]
        if any(o[0] != "Ok" for o in outs):
            k = [i for i, o in enumerate(outs) if o[0] != "Ok"][0]
            ctx.violation("emit-roundtrip:%r" % seqs[k], "_escape_string fails on %r: %r" % (seqs[k], outs[k]), {"broken": broken, "input_bytes": seqs[k], "observed": repr(outs[k])})
            return True
        lexed = gcc_lex_many([o[1] for o in outs])
        if lexed is None:
            # find an offender individually
            for bs, o in zip(seqs, outs):
                if gcc_lex(o[1]) != bs:
                    ctx.violation("emit-roundtrip:%r" % bs, "bytes %r are emitted as C literal %r which gcc does not read back" % (bs, o[1]),
                                  {"broken": broken, "input_bytes": bs, "emitted": o[1]})
                    return True
        else:
            for bs, o, l in zip(seqs, outs, lexed):
                if l != bs:
                    ctx.violation("emit-roundtrip:%r" % bs, "bytes %r are emitted as C literal %r which gcc reads as %r" % (bs, o[1], l),
                                  {"broken": broken, "input_bytes": bs, "emitted": o[1], "gcc_reads": l})
                    return True
    return found


def search_failing_input(ctx, broken):
    """spec vs regenerated functions inside Coq (Lit/LitSearch.v), then replay on the implementation"""
    import nmfu
    sh(["rm", "-f", os.path.join(COQ, "Lit", "LitSearch.vo")])
    rc, out = common.coq_make(["Lit/LitSearch.vo"], timeout=600)
    found = False
    if rc == 0:
        res = re.findall(r"=\s*(\[.*?\])\s*:\s*list", out.replace("\n", " "))
        names = ["cex_string", "cex_char_escape", "cex_char_plain", "cex_escape", "cex_casei", "cex_int"]
        for name, r in zip(names, res):
            if r.strip() == "[]":
                continue
            first = re.search(r"\[([\d; ]*)\]|\((\d+),\s*(\d+)\)|(\d+)", r[1:])
            if name == "cex_string":
                body = [int(x) for x in re.findall(r"\d+", first.group(0))]
                q = '"' + "".join(map(chr, body)) + '"'
                got = py_outcome(nmfu.ParseCtx._convert_string, None, q)
                exp = spec_decode(body)
                if got != ("Ok", "".join(map(chr, exp))):
                    found = True
                    ctx.violation("string-literal:%r" % q, "string literal %s denotes %r but _convert_string gives %r" % (q, exp, got),
                                  {"broken": broken, "input": q, "expected_bytes": exp, "observed": repr(got)})
            elif name == "cex_char_escape":
                c, v = int(first.group(2)), int(first.group(3))
                tok = "'\\" + chr(c) + "'"
                got = py_outcome(nmfu.ParseCtx._convert_char_const, None, tok)
                if got != ("Ok", chr(v)):
                    found = True
                    ctx.violation("char-const:%s" % tok, "character constant %s should denote %d, _convert_char_const gives %r" % (tok, v, got),
                                  {"broken": broken, "input": tok, "expected": v, "observed": repr(got)})
            elif name == "cex_char_plain":
                c = int(re.findall(r"\d+", r)[0]); tok = "'" + chr(c) + "'"
                got = py_outcome(nmfu.ParseCtx._convert_char_const, None, tok)
                if got != ("Ok", chr(c)):
                    found = True
                    ctx.violation("char-const:%r" % tok, "plain character constant mis-decoded", {"broken": broken, "input": tok, "observed": repr(got)})
            elif name == "cex_escape":
                bs = [int(x) for x in re.findall(r"\d+", first.group(0))]
                got = py_outcome(nmfu.CodegenCtx._escape_string, None, bytes(bs))
                lexed = gcc_lex(got[1]) if got[0] == "Ok" else None
                if lexed != bs:
                    found = True
                    ctx.violation("emit-roundtrip:%r" % bs, "bytes %r are emitted as C literal %r which gcc reads as %r" % (bs, got, lexed),
                                  {"broken": broken, "input_bytes": bs, "emitted": repr(got), "gcc_reads": lexed})
            elif name == "cex_casei":
                c = int(re.findall(r"\d+", r)[0])
                got = py_outcome(nmfu.CaseDirectMatch._create_casei_from, None, chr(c))
                ch = chr(c)
                exp = [ch, ch.swapcase()] if ch.isascii() and ch.isalpha() else [ch]
                if got[0] != "Ok" or sorted(got[1]) != sorted(exp):
                    found = True
                    ctx.violation("casei:%d" % c, "case-insensitive set of byte %d is %r, expected %r" % (c, got, exp),
                                  {"broken": broken, "input_byte": c, "observed": repr(got), "expected": exp})
            elif name == "cex_int":
                ds = "".join(chr(int(x)) for x in re.findall(r"\d+", first.group(0)))
                for text, val in ((ds, None), ("-" + ds, None), ("0x" + ds, 16), ("0b" + ds, 2)):
                    try:
                        exp = int(text, 0) if val else int(text)
                    except ValueError:
                        continue
                    got = py_outcome(nmfu.ParseCtx._convert_int, None, text)
                    if got != ("Ok", exp):
                        found = True
                        ctx.violation("int-literal:%s" % text, "integer literal %s should be %d, _convert_int gives %r" % (text, exp, got),
                                      {"broken": broken, "input": text, "expected": exp, "observed": repr(got)})
                        break
    if not found:
        found = python_search(ctx, broken)
    if not found:
        ctx.violation("proof-broken:" + broken, "theorem/tie no longer checks and no failing input was found: " + broken,
                      {"broken": broken, "search_output": out[-2000:]}, found_input=False)


STORED_LITERALS = [r'a\0b', r'a\x00b', r'\0zz', r'k\x00\x01\xfe7', r'ab\0', r'\0', r'abc', r'\n\t\"\\\xff', r'\x7f\x80', r'q\0\0r', r"it's",
                   # bytes the emitted C spells as escapes, directly in front of digits (an escape must not absorb what follows)
                   r'\x011', r'\x077z', r'\0012', r'\x1f07', r'\n9\x018', r'\x7f7', r'\x80a1']


def stored_literals(ctx):
    """end to end: the bytes a string literal spells (Lit/LitSpec.decode, mirrored by spec_decode) are the bytes found in the
    output after `s = "...";` and as a default value, in the gcc-built parser, for terminated and unterminated strings under the
    in-struct and heap representations - interior NUL bytes included (the length counter says how many bytes count)"""
    import cdrv, shutil
    from concurrent.futures import ThreadPoolExecutor
    lits = [(t, spec_decode([ord(c) for c in t])) for t in STORED_LITERALS]
    lits = [(t, b) for t, b in lits if b is not None and len(b) <= 12]
    jobs = []
    for unterm in (False, True):
        decl = "".join("out %sstr[16] d%d = \"%s\";\nout %sstr[16] a%d;\n" % ("unterminated " if unterm else "", i, t, "unterminated " if unterm else "", i) for i, (t, _) in enumerate(lits))
        body = "".join("    a%d = \"%s\";\n" % (i, t) for i, (t, _) in enumerate(lits))
        src = decl + "parser {\n" + body + "    \"x\";\n}\n"
        for fl in (["-O1"], ["-O2", "-fallocate-str-space-dynamic"], ["-O0", "-fallocate-str-space-dynamic-on-demand", "-fstrings-as-u8"]):
            jobs.append((len(jobs), src, fl, unterm, cdrv.prepare_compile(src, fl, max_states=400)))

    def job(a):
        idx, src, fl, unterm, P0 = a
        wd = os.path.join(common.BUILD, "c15", "s%02d" % idx)
        out = {"flags": fl, "unterm": unterm, "src": src, "bad": [], "checked": 0, "skip": None}
        P = cdrv.prepare_build(P0, wd)
        if not P["ok"]:
            out["skip"] = str(P.get("why"))[:200]; return out
        try:
            rc, lines, err = cdrv.run_c(P["wd"], P["cp"].init_vals() + "\nrun 1 1 120 0\n")
            last = [l for l in lines if "|" in l][-1]
            fields = last.split("|")[1].strip().split(",")
            names = [o["name"] for o in P["m"]["outs"]]
            for name, f in zip(names, fields):
                want = dict(("d%d" % i, b) for i, (_, b) in enumerate(lits)); want.update(("a%d" % i, b) for i, (_, b) in enumerate(lits))
                n, hx = f.split(":")[0], f.split(":")[1]
                got = [int(hx[k:k + 2], 16) for k in range(0, len(hx), 2)]
                out["checked"] += 1
                if int(n) != len(want[name]) or got != list(want[name]):
                    out["bad"].append({"output": name, "literal": lits[int(name[1:])][0], "expected": list(want[name]), "stored": got, "length_counter": int(n)})
        except Exception as e:
            out["skip"] = repr(e)[:200]
        finally:
            shutil.rmtree(wd, ignore_errors=True)
        return out

    with ThreadPoolExecutor(max_workers=common.NCPU) as ex:
        res = list(ex.map(job, jobs))
    for o in res:
        for b in o["bad"][:2]:
            ctx.violation("stored-literal:%s:%s:%s" % (b["literal"], "unterminated" if o["unterm"] else "terminated", " ".join(o["flags"])),
                          "the string literal \"%s\" spells the bytes %s but the output %s holds %s (length counter %d) in the gcc-built parser" % (b["literal"], b["expected"], b["output"], b["stored"], b["length_counter"]),
                          {"program": o["src"], "flags": o["flags"], "input": [120], "detail": b, "broken": "correspondence stored bytes vs LitSpec.decode"})
    ctx.coverage["stored_literal_checks"] = {"outputs_compared": sum(o["checked"] for o in res), "binaries": sum(1 for o in res if not o["skip"]), "skipped": [o["skip"] for o in res if o["skip"]][:2]}


def run(ctx):
    ctx.obligations = len(re.findall(r"^Print Assumptions", open(os.path.join(COQ, "Props", "C15.v")).read(), re.M))
    err = regenerate(ctx)
    ctx.trusted += ["translator/pylite2coq.py (Python ast -> Gallina), validated against CPython on enumerated inputs each run",
                    "coq/Base/PyLite.v (reading of the Python subset: indexing, slicing, int(), chr, dict, exceptions)",
                    "specifications: coq/Lit/LitSpec.v (Denotes, decode, C string-literal lexer c_lex)"]
    ctx.assumptions += ["gcc's lexing of string literals agrees with Lit/LitSpec.c_lex (cross-checked on the failing-input path only)",
                        "modelled, not verified: lark's tokenisation of STRING/CHAR_CONSTANT/RADIX_NUMBER; _convert_binary_string is tied by correspondence only (no theorem yet)"]
    if err:
        ctx.log("translator failed closed:", err)
        if not python_search(ctx, "translator (Tie 1) for Gen/GLit.v: " + err):
            ctx.violation("translator-failclosed", "translator cannot translate the current source: " + err,
                          {"broken": "translator (Tie 1) for Gen/GLit.v", "error": err}, found_input=False)
        return
    # 1. build the proofs
    rc, out = common.coq_make(["Lit/LitProps.vo"], timeout=900)
    props = os.path.join(COQ, "Props", "C15.v")
    n_thm = len(re.findall(r"^Print Assumptions", open(props).read(), re.M))
    ctx.obligations = n_thm
    broken = None
    if rc != 0:
        m = re.search(r'File "\./([^"]+)", line (\d+)', out)
        broken = "coq/%s:%s" % (m.group(1), theorem_at(os.path.join(COQ, m.group(1)), int(m.group(2)))) if m else "coq build"
        ctx.log("proof build failed at", broken)
    else:
        rc2, out2 = common.coqc_file(props, timeout=600)
        blocks = common.parse_assumptions(out2)
        if rc2 != 0:
            m = re.search(r'File "([^"]+)", line (\d+)', out2)
            broken = "coq/Props/C15.v:%s" % (theorem_at(props, int(m.group(2))) if m else "?")
            ctx.discharged = len(blocks)
            ctx.log("property file failed at", broken)
        else:
            ctx.discharged = sum(1 for b in blocks if b == "closed")
            axioms = [b for b in blocks if b != "closed"]
            ctx.coverage["print_assumptions"] = "%d theorems: Closed under the global context" % ctx.discharged + ("; AXIOMS: %r" % axioms if axioms else "")
            if axioms or ctx.discharged != n_thm:
                ctx.violation("axioms", "property theorems depend on axioms or are missing: %r" % axioms, {"broken": "Print Assumptions audit", "output": out2[-2000:]}, found_input=False)
    if broken:
        search_failing_input(ctx, broken)
    hits = common.coq_audit_sources()
    if hits:
        ctx.violation("forbidden-vernacular", "forbidden vernacular in the development: %s" % hits[:3], {"hits": hits}, found_input=False)
    # 2. correspondence of the PyLite reading with CPython
    pylite_correspondence(ctx)
    # 2a. the bytes that end up in an output
    stored_literals(ctx)
    ctx.coverage["checker_cmd"] = "make -C coq Lit/LitProps.vo && coqc -Q coq NV coq/Props/C15.v (Print Assumptions under every theorem)"
    ctx.coverage["theorems"] = ["c15_string_literal_denotes", "c15_string_literal_wellformed", "c15_char_const_plain", "c15_char_const_escape",
                                "c15_int_decimal", "c15_int_hex", "c15_int_bin", "c15_casei_set", "c15_emit_roundtrip", "c15_emit_roundtrip_str"]
    ctx.samples.append({"theorem": "c15_emit_roundtrip", "statement": "forall bs, Forall (<256) bs -> exists t, escape_string_bytes bs = Ok t /\\ c_lex t = Some bs"})
