"""C16 - wait never fails and stops at the first restart-semantics match.

(1) Props/C16.v, over the procedural reading, for all patterns, contexts and bytes: a wait step consumes (continue /
complete / skip), restarts with the same byte, or hands over when complete - it never raises; end of input in a wait
fails the parse without entering a handler.  (2) Per accepted program (wait-centred generator: literal, case-
insensitive, regex with classes / inverted sets / alternation heads / repeats, concatenations; alone, in try, loop,
foreach, handler, behind appends; with and without end()): the compiled machine is validated against that reading.
"""
import os, random, collections
import common, gen, refsem
from props import c01

LEVEL = "translation_validation"


def run(ctx):
    quick = ctx.tier == "quick"
    ctx.trusted += ["coq/Ref/RefSem.v (restart semantics of wait: FW frame) is a definition; Props/C16.v states its step law",
                    "harness/gen.py printer, harness/refsem.py (tree -> Lang term), exporter + Machine/Sem.v (tied to C by C06), extraction; a sample certified by the kernel"]
    ctx.assumptions += ["program quantifier sampled (wait-centred generator, -O0..-O3); inputs (end-of-input included for parsers with end()) and data by theorem"]
    err = refsem.ensure_refk()
    if err:
        ctx.violation("refk-build", "the extracted validator does not build: " + err[:300], {"broken": "coq/Ref or extraction", "output": err}, found_input=False)
        return
    rc, out = common.coq_make(["Props/C16.vo"])
    src = open(os.path.join(common.COQ, "Props", "C16.v")).read()
    ctx.obligations = src.count("Print Assumptions")
    if rc != 0:
        ctx.violation("proof:Props/C16.v", "the development no longer checks", {"broken": "coq/Props/C16.v", "output": out[-1500:]}, found_input=False)
        return
    rc, out = common.coqc_file(os.path.join(common.COQ, "Props", "C16.v"))
    blocks = common.parse_assumptions(out)
    ctx.discharged = sum(1 for b in blocks if b == "closed")
    if ctx.discharged != ctx.obligations:
        ctx.violation("proof:assumptions", "a C16 theorem depends on axioms: %r" % blocks, {"broken": "Print Assumptions", "output": out[-800:]}, found_input=False)
    n = 400 if quick else 2400
    levels = ["-O0", "-O3"] if quick else ["-O0", "-O1", "-O2", "-O3"]
    def progs():
        for i in range(n):
            yield gen.gen_wait_program(random.Random(ctx.rng.getrandbits(48)))
    st = c01.validate(ctx, progs(), levels, quick, "c16", "c16_compiled_trace_is_a_reading", "Props.C16", 14 if quick else 80)
    ctx.coverage.update({"programs": len(st["cases"]), "programs_certified_extracted": st["okc"], "programs_certified_in_coq": st["coq_ok"], "disagreements_checked": st["nviol"],
                         "with_end_of_input": sum(1 for c in st["cases"] if c["eof"]), "compiler_verdicts": dict(st["verd"]), "levels": levels, "statement_kinds": dict(st["feats"]),
                         "theorems": ["c16_wait_step", "c16_wait_never_fails", "c16_end_of_input_in_wait", "c16_compiled_trace_is_a_reading"],
                         "checker_cmd": "coqc coq/Props/C16.v ; ocaml/refk ref ; coqc build/c16/cert_*.v"})
    for c, res in list(zip(st["cases"], st["results"]))[:: max(1, len(st["cases"]) // 5)][:5]:
        ctx.samples.append({"program": c["src"], "flags": c["flags"], "result": res[:60]})
