"""C17 - end-of-input handling follows the EOF contract.

Proof over the model (coq/Props/C17.v: data bytes never select a transition by its End mark; in machines
carrying end_safe end-of-input never selects a consuming data transition; end() with nothing to do returns
DONE iff the state is accepting; end() after a failure returns FAIL) + per-machine certificates + the
end-of-input move of EVERY state of the gcc-built parser (with -feof-support) compared with the model
under several data contexts + runs that finish with end().
"""
import os, re, json, random, collections, shutil
from concurrent.futures import ThreadPoolExecutor
import common, nm, export, gen, mach, cdrv
from props import c02

LEVEL = "proof"


def job(args):
    idx, name, src, seed, quick, P0, inits = args
    rng = random.Random(seed)
    wd = os.path.join(common.BUILD, "c17", "p%04d" % idx)
    P = cdrv.prepare_build(P0, wd)
    res = {"name": name, "flags": P0["flags"], "src": src, "ok": P["ok"], "why": P.get("why"), "build_output": P.get("build_output"), "steps": 0, "runs": 0, "viol": []}
    if not P["ok"]:
        return res
    m = P["m"]
    res["machine"] = m
    special = set(cdrv.special_bytes(P["I"]))
    cmds, meta = [], []
    for ci, init in enumerate(inits):
        cmds.append(init)
        for q in range(len(m["states"])):
            cmds.append("step %d 256" % q)
            meta.append(("end-step", ci, q))
    nstep = len(meta)
    cmds.append(inits[0])
    runs = []
    for k in range(12 if quick else 50):
        inp = cdrv.random_input(m, rng, maxlen=rng.choice([0, 1, 2, 4, 8, 20]), special=special)
        if rng.random() < 0.3 and inp:
            inp = inp[:rng.randrange(len(inp) + 1)]           # end() in the middle of constructs
        lens = rng.choice(cdrv.all_splits(len(inp), rng, limit=6)) if inp else []
        if not inp:
            if not m["end_check"]:
                continue
            lens = []
        cmds.append("run %d %s %s %d" % (len(lens), " ".join(map(str, lens)), " ".join(map(str, inp)), rng.choice([1, 1, 3])))
        runs.append((inp, lens))
    text = "\n".join(cmds) + "\n"
    rc1, cl, cerr = cdrv.run_c(wd, text, timeout=120)
    rc2, ml, merr = cdrv.run_model(P["dfa_text"], P["cfg_text"], text, timeout=300)
    shutil.rmtree(wd, ignore_errors=True)
    res["steps"], res["runs"] = nstep, len(runs)
    if rc1 != 0:
        res["viol"].append({"kind": "c-binary-exit", "rc": rc1, "stderr": cerr[-300:]})
        return res
    d, u = cdrv.compare(cl[:nstep], ml[:nstep], True)
    for (i, c, mm) in d[:3]:
        res["viol"].append({"kind": "end-step", "context": meta[i][1], "state": meta[i][2], "c": c, "model": mm, "init": inits[meta[i][1]]})
    cb, mb = cdrv.split_blocks(cl[nstep:]), cdrv.split_blocks(ml[nstep:])
    for (inp, lens), cbk, mbk in zip(runs, cb, mb + [[]] * len(cb)):
        if any(x.startswith("UNDEF") for x in mbk):
            continue
        d2, u2 = cdrv.compare(cbk, mbk, P["direct"])
        if d2:
            res["viol"].append({"kind": "run-with-end", "input": inp, "split": lens, "first_diff": d2[0]})
            break
    return res


def run(ctx):
    err = mach.ensure_machk()
    if err:
        ctx.violation("build", "extracted tools do not build: " + err[:200], {"broken": "extraction"}, found_input=False)
        return
    rc, out = common.coq_make(["Machine/Eof.vo", "Machine/Chunk.vo"], timeout=900)
    c02.proofs(ctx, "C17.v")
    quick = ctx.tier == "quick"
    rng = ctx.rng
    stream = [(n, s, f) for n, s, f in nm.corpus() if n not in ("gtfs-realtime", "ttc_rdf", "http")]
    for i in range(40 if quick else 400):
        ast, src = gen.gen_eof_shape(random.Random(rng.getrandbits(48)))
        stream.append(("eof%d" % i, src, []))
    for i in range(20 if quick else 300):
        ast, src = gen.gen_program(random.Random(rng.getrandbits(48)), gen.Profile(max_stmts=4))
        stream.append(("gen%d" % i, src, []))
    jobs = []
    skipped = collections.Counter()
    for name, src, flags in stream:
        base = [f for f in flags if not f.startswith("-O") and f != "-feof-support"]
        for fl in ([base + ["-feof-support", "-O1"], base + ["-feof-support", rng.choice(["-O0", "-O2", "-O3"]), rng.choice(["-fstrict-done-token-generation", "-findirect-start-ptr", "-fzero-len-input-support"])]]):
            fl = list(dict.fromkeys(fl))
            P0 = cdrv.prepare_compile(src, fl, max_states=150)
            if not P0["ok"]:
                skipped[(P0["why"] or "?").split("\n")[0][:40]] += 1
                continue
            inits = [P0["cp"].init_vals(overrides=c) for c in cdrv.contexts(P0["cp"], rng, 1)]
            jobs.append((len(jobs), name, src, rng.getrandbits(32), quick, P0, inits))
    with ThreadPoolExecutor(max_workers=common.NCPU) as ex:
        results = list(ex.map(job, jobs))
    good = [r for r in results if r["ok"]]
    for r in results:
        if not r["ok"] and r["why"] == "c-build-failed":
            ctx.violation("end-does-not-compile:%s:%s" % (r["name"], " ".join(r["flags"])), "the emitted end() does not compile: " + (r.get("build_output") or "")[-200:].replace("\n", " "),
                          {"program": r["src"], "flags": r["flags"], "gcc": r.get("build_output")})
    certs = mach.run_machk([mach.task_endsafe(r["machine"]) for r in good])
    ncert = collections.Counter()
    for r, w in zip(good, certs):
        ncert[w.split()[0]] += 1
        if w != "ok":
            q = w.split()[1] if len(w.split()) > 1 else "?"
            path = mach.reach_path(r["machine"], int(q)) if q.isdigit() else None
            ctx.violation("data-matches-end:%s:%s:q%s" % (r["name"], " ".join(r["flags"]), q),
                          "at end-of-input machine state %s takes a consuming data transition (a wildcard / inverted set matches end-of-input)" % q,
                          {"program": r["src"], "flags": r["flags"], "state": q, "input_then_end": path, "broken": "certificate Eof.end_safe"}, found_input=path is not None)
    nviol = 0
    for r in good:
        for v in r["viol"]:
            nviol += 1
            ctx.violation("%s:%s:%s:%s" % (v["kind"], r["name"], " ".join(r["flags"]), v.get("state", v.get("input"))),
                          "end-of-input behaviour of the gcc-built parser differs from the model: %s" % json.dumps(v)[:500], {"program": r["src"], "flags": r["flags"], "detail": v})
            break
    # ---- end-of-input against the procedural reading (Ref/RefSem.v): the EOF shapes at every level, validated by the
    # simulation certificate of C01 with the end-of-input symbol among the symbols of interest (the machine-level
    # certificates above cannot see an end() that reports FAIL where the `end` clause should have run)
    import refsem
    from props import c01
    erk = refsem.ensure_refk()
    rd = None
    if erk:
        ctx.violation("refk-build", "the extracted validator does not build: " + erk[:200], {"broken": "coq/Ref or extraction"}, found_input=False)
    else:
        def eof_progs():
            r2 = random.Random(rng.getrandbits(48))
            for i in range(60 if quick else 600):
                p_, src_ = gen.gen_eof_shape(random.Random(r2.getrandbits(48)), reading_safe=True)
                # (with -fstrict-done-token-generation DONE is never returned "immediately": end() has to report it itself)
                yield p_, src_, ["-feof-support"] + (["-fstrict-done-token-generation"] if i % 3 == 2 else [])
        rd = c01.validate(ctx, eof_progs(), ["-O0", "-O3"] if quick else ["-O0", "-O1", "-O2", "-O3"], False, "c17", "c01_compiled_trace_is_a_reading", "Props.C01", 0)
        # known finding: one witness (the generator keeps wildcard / inverted-class heads out of optionals that end the program)
        import refsem as _rs
        wp = c01._prog([c01.LIT(b"a"), ("optional", [("match", ("re", ("any",)))])])
        wsrc = gen.pr_prog(wp)
        wc = c01.convert(wp, wsrc, ["-feof-support"], "-O1")
        if wc["verdict"] == "ok":
            wres = _rs.run_refk([_rs.task_ref(wc["epr"], wc["em"], wc["I"], True)], timeout=300)[0]
            if wres.startswith("mismatch") and wres.split()[3] == "256":
                ctx.violation("eof:witness:end-in-accepting-state-behind-rejecting-end-transition",
                              "end() in a state in which the program is complete returns FAIL when that state rejects the end of input explicitly (%s)" % wres[:60],
                              {"program": wsrc, "flags": ["-O1", "-feof-support"], "input": [97, 256], "certificate": wres[:300],
                               "binary": c01.run_binary(wsrc, ["-O1", "-feof-support"], [97], os.path.join(common.BUILD, "c17", "w"))}, found_input=True)
            else:
                ctx.log("witness end-in-accepting-state-behind-rejecting-end-transition: no longer reproduces (%s)" % wres[:40])
    if rd is not None:
        ctx.coverage["reading_validated_with_end_of_input"] = {"cases": len(rd["cases"]), "certified": rd["okc"], "rejected": rd["nviol"]}
    ctx.coverage.update({
        "programs_x_option_sets": len(good), "end_moves_compared": sum(r["steps"] for r in good), "runs_ending_in_end": sum(r["runs"] for r in good),
        "certificates_end_safe": dict(ncert), "skipped": dict(skipped), "disagreements": nviol,
        "checker_cmd": "coqc coq/Props/C17.v ; ocaml/machk endsafe ; gcc-built parsers (-feof-support) vs ocaml/crun: end-of-input move of every state x contexts, runs ending in end()",
    })
    ctx.samples += [{"program": r["name"], "flags": r["flags"], "end_moves": r["steps"], "runs": r["runs"]} for r in good[::max(1, len(good) // 8)]][:10]
    ctx.trusted += ["gcc and the C semantics of the emitted text", "harness/export.py, harness/cdrv.py", "extraction (ExtrOcamlBasic)"]
    ctx.assumptions += ["that the compiled machine is the right one for the program's `end` patterns is C01's reference semantics; C17 decides the contract between machine and emitted end()/feed() and the End/data separation"]
