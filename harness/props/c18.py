"""C18 - the compiler always terminates with code or a diagnosed error.

Partial proof (DESIGN.md section 5, C18):

 A. Coq totality theorems (coq/Total/*.v, coq/Props/C18.v) over the functions REGENERATED from the current
    nmfu.py into coq/Gen/GLit.v: on every input of the lexical class the grammar hands to the function, the result is
    a value or a diagnosed error - never an internal exception, never out of fuel.  The lexical classes are Coq
    predicates mirroring the grammar terminals; this check compares the terminals of the CURRENT grammar string with
    the spellings the predicates assume and fails closed when they differ.  Statements that are false of today's code
    are proved refuted (witness by vm_compute), the witness is confirmed on the real compiler and reported.
 B. What no theorem carries (CPython raising from unmodelled code) is observed fail-closed: malformed / edge-case
    programs (harness/malgen.py), mostly-valid programs (harness/gen.py) and the corpus, under random option sets,
    compiled in fresh worker processes under a time limit.  Any internal exception, unrenderable error or timeout is a
    violation, minimised and keyed by exception type, innermost nmfu.py function and generator feature tag.
"""
import os, sys, re, json, time, random, subprocess, collections, threading, queue
import common
from common import COQ, BUILD, VERIF

LEVEL = "proof"
WORKER = os.path.join(os.path.dirname(os.path.dirname(os.path.abspath(__file__))), "c18_worker.py")
HARNESS = os.path.dirname(WORKER)
OUTDIR = os.path.join(BUILD, "c18")
os.makedirs(OUTDIR, exist_ok=True)

SLOW_TAGS = ("regex-repeat-huge", "regex-repeat-large", "long-regex", "long-literal", "long-alternation", "many-case-clauses", "many-statements",
             "long-expression", "deep-parens", "deep-nesting")


# ---------------------------------------------------------------------------
# part B: worker pool
# ---------------------------------------------------------------------------
def worker_env():
    return dict(os.environ, PYTHONHASHSEED="0", NMFU_VERIF="1", PYTHONDONTWRITEBYTECODE="1",
                PYTHONPATH=common.REPO + ":" + HARNESS)


def run_chunk(jobs):
    """run one worker process over a chunk; returns {id: result}.  A job that kills its worker is reported as
    internal/WorkerDied and the rest of the chunk is retried in a new process."""
    results = {}
    todo = list(jobs)
    while todo:
        budget = sum(int(j.get("limit", 20)) for j in todo) + 60
        p = subprocess.Popen([common.PY, WORKER], stdin=subprocess.PIPE, stdout=subprocess.PIPE, stderr=subprocess.PIPE, text=True, env=worker_env())
        try:
            out, err = p.communicate(json.dumps(todo), timeout=budget)
        except subprocess.TimeoutExpired:
            p.kill()
            out, err = p.communicate()
        started = None
        for line in out.splitlines():
            try:
                r = json.loads(line)
            except ValueError:
                continue
            if r.get("start"):
                started = r["id"]
            else:
                results[r["id"]] = r
                started = None
        remaining = [j for j in todo if j["id"] not in results]
        if not remaining:
            break
        if started is not None and started not in results:
            results[started] = {"id": started, "verdict": "internal", "exc": "WorkerDied", "fn": "process", "sig": ["process"], "phase": "?",
                                "message": "the compiler process died (exit status %s) while compiling this program" % p.returncode,
                                "traceback": (err or "")[-3000:], "secs": 0}
            remaining = [j for j in remaining if j["id"] != started]
        elif len(remaining) == len(todo):
            # nothing at all came back: the worker could not even start
            for j in remaining:
                results[j["id"]] = {"id": j["id"], "verdict": "internal", "exc": "WorkerFailed", "fn": "process", "sig": ["process"], "phase": "?",
                                    "message": "worker produced no output: " + (err or "")[-300:], "traceback": (err or "")[-3000:], "secs": 0}
            break
        todo = remaining
    return results


def run_jobs(ctx, jobs, chunk=48):
    """all jobs through NCPU worker processes; slow jobs are spread (the chunks are interleaved)"""
    from concurrent.futures import ThreadPoolExecutor
    slow = [j for j in jobs if j.get("slow")]
    fast = [j for j in jobs if not j.get("slow")]
    chunks = [[j] for j in slow] + [fast[k:k + chunk] for k in range(0, len(fast), chunk)]
    results = {}
    with ThreadPoolExecutor(max_workers=common.NCPU) as ex:
        for r in ex.map(run_chunk, chunks):
            results.update(r)
    return results


# ---------------------------------------------------------------------------
# job construction
# ---------------------------------------------------------------------------
def build_jobs(ctx):
    import malgen, gen, nm, nmfu
    quick = ctx.tier == "quick"
    rng = ctx.rng
    limit = 20 if quick else 60
    jobs = []
    def add(stream, tag, src, flags, slow=False, extra=None):
        j = {"id": len(jobs), "stream": stream, "tag": tag, "src": src, "flags": list(flags), "limit": limit, "slow": slow}
        if extra:
            j.update(extra)
        jobs.append(j)
    # 1. deterministic edge cases
    for c in malgen.edge_cases(ctx.tier, random.Random(rng.getrandbits(32))):
        add("edge", c["tag"], c["src"], c["flags"], slow=c["tag"] in SLOW_TAGS)
    n_edge = len(jobs)
    # 2. grammar walk
    gw = malgen.GrammarWalk(random.Random(rng.getrandbits(48)))
    n_walk = 700 if quick else 9000
    walk_used = {}
    for i in range(n_walk):
        src, used = gw.program()
        gw.used |= used
        fl = malgen.random_flags(rng, need=["-fyield-support", "-feof-support"]) if rng.random() < 0.7 else []
        add("gwalk", "gwalk", src, fl, extra={"rules": sorted(used)})
    # 3. mostly-valid programs under random option sets
    n_gen = 500 if quick else 9000
    valid_sources = []
    for i in range(n_gen):
        r = random.Random(rng.getrandbits(48))
        kw = {k: r.choice([0, 0, 1, 2, 4, 6]) for k in ("match", "append", "appc", "assign", "assigns", "delete", "hook", "finish", "yield_", "wait", "loop",
                                                          "case", "gcase", "optional", "try_", "foreach", "if_", "break_", "ifact")}
        kw["match"] = max(kw["match"], 2)
        prof = gen.Profile(max_stmts=r.choice([2, 3, 4, 6]), max_depth=r.choice([1, 2, 3, 4]), eof=r.random() < 0.3, yields=r.random() < 0.3,
                           high_bytes=r.random() < 0.7, big_strings=r.random() < 0.2, **kw)
        try:
            ast, src = gen.gen_program(r, prof)
        except Exception as e:      # the generator is not the subject; skip its own failures but count them
            ctx.coverage["generator_failures"] = ctx.coverage.get("generator_failures", 0) + 1
            continue
        need = (["-feof-support"] if prof.eof else []) + (["-fyield-support"] if prof.yields else [])
        add("gen", "gen", src, malgen.random_flags(rng, need=need))
        valid_sources.append((src, need))
    for i in range(40 if quick else 600):
        r = random.Random(rng.getrandbits(48))
        k = i % 3
        if k == 0:
            a, b, d = gen.gen_macro_program(r)
            src, need = a, (["-fyield-support"] if d["yield"] else [])
        elif k == 1:
            ast, src = gen.gen_greedy_program(r); need = []
        else:
            ast, src = gen.gen_program(r, gen.Profile(max_stmts=3)); need = []
        add("gen", "gen-%s" % ["macro", "greedy", "small"][k], src, malgen.random_flags(rng, need=need))
        valid_sources.append((src, need))
    # 4. corpus under random option sets
    corpus = nm.corpus()
    big = {"gtfs-realtime", "ttc_rdf"}
    reps = 3 if quick else 25
    for name, src, fl in corpus:
        if quick and name in big:
            continue
        base = [f for f in fl if not f.startswith("-O")]
        add("corpus", "corpus", src, fl, slow=name in big)
        for _ in range(reps if name not in big else 2):
            add("corpus", "corpus", src, malgen.random_flags(rng, need=base), slow=name in big)
        valid_sources.append((src, base))
    # 5. one semantic mutation of a valid program
    n_mut = 700 if quick else 9000
    made = 0
    tries = 0
    while made < n_mut and tries < n_mut * 3:
        tries += 1
        src, need = rng.choice(valid_sources)
        if len(src) > 6000:
            continue
        m, name = malgen.mutate(src, rng)
        if m is None or m == src:
            continue
        add("mutation", "mutation:" + name, m, malgen.random_flags(rng, need=need) if rng.random() < 0.5 else list(need))
        made += 1
    return jobs, gw


# ---------------------------------------------------------------------------
# classification, minimisation, reporting
# ---------------------------------------------------------------------------
def signature(r):
    return (r.get("exc"), r.get("fn"), tuple(r.get("sig") or ()))


def local_oracle(flags, exc, fn, limit):
    import c18_worker
    def still(text):
        r = c18_worker.compile_one(text, flags, limit)
        return r["verdict"] == "internal" and r.get("exc") == exc and r.get("fn") == fn
    return still


def timeout_tag(j):
    """feature tag of a timed-out program from a random stream: the construct that is known to cost super-linear time"""
    src = j["src"]
    if j["stream"] == "edge":
        return {"regex-repeat-large": "regex-repeat", "regex-repeat-huge": "regex-repeat"}.get(j["tag"], j["tag"])
    if re.search(r"/[^\n]*\{\s*[+-]?\d[^\n]*/", src):
        return "regex-repeat"
    if re.search(r'"[^"\n]{300,}"|/[^/\n]{300,}/', src):
        return "long-literal"
    return j["tag"]


def report_failures(ctx, jobs, results):
    import malgen
    fails = [(j, results[j["id"]]) for j in jobs if results[j["id"]]["verdict"] in ("internal", "timeout")]
    by_key = collections.OrderedDict()
    sig_to_key = {}
    # edge cases (deterministic, first in job order) are keyed by their own feature tag; a failure of a random stream
    # that has the traceback signature of an edge failure is counted as a further witness of that key, otherwise it
    # is keyed by its stream
    for j, r in fails:
        if r["verdict"] == "timeout":
            key = "timeout:%s:%s" % (r.get("phase", "?"), timeout_tag(j))
        elif j["stream"] == "edge":
            key = "internal:%s:%s:%s" % (r["exc"], r["fn"], j["tag"])
            sig_to_key.setdefault(signature(r), key)
        else:
            key = sig_to_key.get(signature(r))
            if key is None:
                key = "internal:%s:%s:%s" % (r["exc"], r["fn"], j["tag"])
        by_key.setdefault(key, []).append((j, r))
    ctx.coverage["distinct_failure_keys"] = len(by_key)
    ctx.coverage["failing_compilations"] = len(fails)
    for key, wit in by_key.items():
        wit.sort(key=lambda jr: (len(jr[0]["src"]), jr[0]["src"]))
        j, r = wit[0]
        src = j["src"]
        mini = src
        if ctx.known_match(key) is None and r["verdict"] == "internal" and r["exc"] not in ("WorkerDied", "WorkerFailed") and len(src) < 20000:
            try:
                lim = 10 if r.get("secs", 0) < 3 else int(j["limit"])
                mini = malgen.minimise(src, local_oracle(j["flags"], r["exc"], r["fn"], lim), max_tests=120 if r.get("secs", 0) < 1 else 25)
            except Exception as e:
                ctx.notes.append("minimiser failed on %s: %r" % (key, e))
                mini = src
        what = "%s: %s [%d witness(es); streams %s]" % (r["verdict"], r["message"][:200].replace("\n", " / "), len(wit), sorted({w[0]["stream"] for w in wit}))
        ctx.violation(key, what, {"program": mini, "flags": j["flags"], "verdict": r["verdict"], "message": r["message"], "traceback": r.get("traceback"),
                                  "original_program": src if src != mini else None, "witnesses": len(wit), "tags": sorted({w[0]["tag"] for w in wit})[:20],
                                  "other_witnesses": [{"program": w[0]["src"][:600], "flags": w[0]["flags"]} for w in wit[1:4]]})
    return by_key


def part_b(ctx):
    import malgen
    t0 = time.time()
    jobs, gw = build_jobs(ctx)
    ctx.log("%d compilations queued (%.1fs to generate)" % (len(jobs), time.time() - t0))
    results = run_jobs(ctx, jobs)
    missing = [j for j in jobs if j["id"] not in results]
    if missing:
        ctx.violation("harness:missing-results", "%d compilations returned no result" % len(missing), {"first": missing[0]["src"][:500]}, found_input=False)
        for j in missing:
            results[j["id"]] = {"verdict": "lost", "message": "", "secs": 0}
    ctx.log("compiled in %.1fs" % (time.time() - t0))
    per_stream = collections.defaultdict(collections.Counter)
    syntax = collections.Counter()
    rules_ok = set()
    flagdist = collections.Counter()
    phase_dist = collections.Counter()
    for j in jobs:
        r = results[j["id"]]
        per_stream[j["stream"]][r["verdict"]] += 1
        flagdist[malgen.flags_signature(j["flags"])] += 1
        if r["verdict"] == "diagnosed":
            phase_dist[r.get("phase", "?")] += 1
            if r["message"].startswith("syntax:"):
                syntax[j["stream"]] += 1
                if j["stream"] == "edge":
                    ctx.notes.append("edge case does not parse (%s): %s" % (j["tag"], j["src"][-120:]))
        if j["stream"] == "gwalk" and not r["message"].startswith("syntax:") and not r["message"].startswith("flags:"):
            rules_ok |= set(j["rules"])
    total_rules = gw.total_rules()
    missing_rules = [gw.rule_name(i) for i in total_rules if i not in rules_ok]
    slow = sorted(jobs, key=lambda j: -results[j["id"]].get("secs", 0))[:5]
    ctx.coverage.update({
        "compilations": len(jobs),
        "evaluations": len(jobs),
        "distinct_nontrivial": len({j["src"] for j in jobs}),
        "verdicts_per_stream": {s: dict(c) for s, c in per_stream.items()},
        "syntax_rejected_per_stream": dict(syntax),
        "diagnosed_by_phase": dict(phase_dist),
        "grammar_rules_total": len(total_rules),
        "grammar_rules_covered_by_accepted_walks": len(total_rules) - len(missing_rules),
        "grammar_rules_missing": missing_rules,
        "rule": "every rule alternative of nmfu.parser.rules reachable from `start` (after lark's EBNF expansion) counted when a grammar-walk program using it is accepted by lark",
        "flag_set_distribution": dict(flagdist.most_common(40)),
        "distinct_flag_sets": len({tuple(j["flags"]) for j in jobs}),
        "edge_tags": len({j["tag"] for j in jobs if j["stream"] == "edge"}),
        "slowest_compilations": [{"secs": results[j["id"]].get("secs"), "stream": j["stream"], "tag": j["tag"], "flags": j["flags"], "program": j["src"][:160]} for j in slow],
        "time_limit_s": jobs[0]["limit"] if jobs else None,
    })
    if missing_rules and ctx.tier != "quick":
        ctx.notes.append("grammar rules never exercised by an accepted walk: %r" % missing_rules)
    by_key = report_failures(ctx, jobs, results)
    # samples
    seen = set()
    for j in jobs:
        r = results[j["id"]]
        k = (j["stream"], r["verdict"])
        if k in seen or len(j["src"]) > 400:
            continue
        seen.add(k)
        ctx.samples.append({"stream": j["stream"], "tag": j["tag"], "program": j["src"], "flags": j["flags"], "verdict": r["verdict"], "message": r["message"][:160]})
    return jobs, results


# ---------------------------------------------------------------------------
# part A: totality theorems over the regenerated functions
# ---------------------------------------------------------------------------
EXPECTED_TERMINALS = {
    "STRING": '"(?:[^"\\\\]|\\\\.)*"',
    "CHAR_CONSTANT": "(?:'\\\\.'|'[^'\\\\]')",
    "NUMBER": '(?:(?:\\+|\\-))?(?:[0-9])+',
}
RADIX_HEX = '(?:(?:\\+|\\-))?0x(?:(?:[a-f]|[A-F]|[0-9]))+'
RADIX_DEC = '(?:(?:\\+|\\-))?(?:[0-9])+'
RADIX_BIN = {'0b(?:(?:(?:0|1))?)+': True, '0b(?:(?:0|1))+': False, '0b(?:0|1)+': False, '0b(?:[01])+': False, '0b[01]+': False}
# rule (alias or origin) -> terminals of the lexical classes it must contain: where the tokens reach the functions
EXPECTED_USES = {
    "str_type": ["RADIX_NUMBER"], "unterm_str_type": ["RADIX_NUMBER"], "width_attr": ["NUMBER"], "number_const": ["RADIX_NUMBER"], "math_num": ["RADIX_NUMBER"],
    "char_const": ["CHAR_CONSTANT"], "math_char_const": ["CHAR_CONSTANT"], "string_case_const": ["STRING"], "binary_string_const": ["STRING"], "string_const": ["STRING"],
}


def check_lexical_classes(ctx):
    """compare the terminals of the current grammar with the spellings Total/Lexical.v assumes; regenerate Total/GLex.v.
    returns (ok, bin_may_be_empty)"""
    import nmfu
    terms = {t.name: t for t in nmfu.parser.terminals}
    problems = []
    for name, want in EXPECTED_TERMINALS.items():
        t = terms.get(name)
        if t is None or t.pattern.value != want or t.pattern.flags:
            problems.append("%s is %r (flags %r), Total/Lexical.v assumes %r" % (name, t and t.pattern.value, t and sorted(t.pattern.flags), want))
    bin_empty = None
    t = terms.get("RADIX_NUMBER")
    if t is None or t.pattern.flags:
        problems.append("RADIX_NUMBER missing or has flags")
    else:
        v = t.pattern.value
        inner = v[3:-1] if v.startswith("(?:") and v.endswith(")") else v
        parts = inner.split("|0b", 1)
        ok = False
        if len(parts) == 2 and parts[0] == RADIX_HEX:
            for spelled, may_empty in RADIX_BIN.items():
                if parts[1] == spelled[2:] + "|" + RADIX_DEC:
                    ok, bin_empty = True, may_empty
        if not ok:
            problems.append("RADIX_NUMBER is %r, not HEX | BIN | NUMBER in a spelling Total/Lexical.v describes" % v)
    uses = collections.defaultdict(set)
    for r in nmfu.parser.rules:
        for sy in r.expansion:
            if sy.is_term and sy.name in ("STRING", "CHAR_CONSTANT", "NUMBER", "RADIX_NUMBER"):
                uses[r.alias or r.origin.name].add(sy.name)
    for rule, want in EXPECTED_USES.items():
        if sorted(uses.get(rule, ())) != sorted(want):
            problems.append("rule %s carries %r, expected %r" % (rule, sorted(uses.get(rule, ())), want))
    if problems:
        ctx.violation("lexical-class-mismatch", "the grammar terminals are not spelled the way coq/Total/Lexical.v assumes: " + "; ".join(problems)[:600],
                      {"broken": "correspondence grammar terminals vs Total/Lexical.v", "problems": problems}, found_input=False)
        return False, None
    text = ("(** GENERATED by harness/props/c18.py from the terminal definitions of the `grammar` string of the current nmfu.py\n"
            "    (the regular expressions lark compiled for STRING, CHAR_CONSTANT, RADIX_NUMBER, NUMBER) - do not edit.\n"
            "    The check fails closed when a terminal is spelled in a way that Total/Lexical.v does not describe. *)\n"
            + ("(* BIN_NUMBER is spelled with lark's optional brackets: the digit sequence may be empty *)\n" if bin_empty else
               "(* BIN_NUMBER requires at least one binary digit *)\n")
            + "Definition bin_digits_may_be_empty : bool := %s.\n" % ("true" if bin_empty else "false"))
    common.write_if_changed(os.path.join(COQ, "Total", "GLex.v"), text)
    return True, bin_empty


def check_call_sites(ctx):
    """the theorems about _convert_binary_string and _integer_containing lean on how they are called:
    every call of _convert_binary_string sits in a try whose `except ValueError` raises IllegalParseTree;
    _integer_containing is called either with keywords signed=, width= only, or with one positional maximum and signed=False"""
    import ast
    src = open(os.path.join(common.REPO, "nmfu.py")).read()
    tree = ast.parse(src)
    problems = []
    parents = {}
    for n in ast.walk(tree):
        for c in ast.iter_child_nodes(n):
            parents[c] = n
    nb = nic = 0
    for n in ast.walk(tree):
        if isinstance(n, ast.Call) and isinstance(n.func, ast.Attribute) and n.func.attr == "_convert_binary_string":
            nb += 1
            p, guarded = n, False
            while p in parents:
                q = parents[p]
                if isinstance(q, ast.Try) and p in q.body:
                    for h in q.handlers:
                        names = []
                        if isinstance(h.type, ast.Name): names = [h.type.id]
                        elif isinstance(h.type, ast.Tuple): names = [e.id for e in h.type.elts if isinstance(e, ast.Name)]
                        if "ValueError" in names and any(isinstance(x, ast.Raise) and isinstance(x.exc, ast.Call) and getattr(x.exc.func, "id", "") in ("IllegalParseTree", "IllegalASTStateError")
                                                         for x in ast.walk(h)):
                            guarded = True
                p = q
            if not guarded:
                problems.append("call of _convert_binary_string at line %d is not inside try/except ValueError -> IllegalParseTree" % n.lineno)
        if isinstance(n, ast.Call) and isinstance(n.func, ast.Attribute) and n.func.attr == "_integer_containing":
            nic += 1
            kws = {k.arg: k.value for k in n.keywords}
            if len(n.args) == 0 and set(kws) == {"signed", "width"}:
                continue
            if len(n.args) == 1 and set(kws) == {"signed"} and isinstance(kws["signed"], ast.Constant) and kws["signed"].value is False:
                continue
            problems.append("call of _integer_containing at line %d has an argument shape the theorems do not cover" % n.lineno)
    if nb == 0 or nic == 0:
        problems.append("no call sites found (%d, %d)" % (nb, nic))
    ctx.coverage["call_sites_checked"] = {"_convert_binary_string": nb, "_integer_containing": nic}
    if problems:
        ctx.violation("call-site-shape", "; ".join(problems)[:500], {"broken": "side conditions of c18_convert_binary_string_total / c18_integer_containing_*", "problems": problems}, found_input=False)
    return not problems


def real_outcome(src, flags=()):
    import c18_worker
    return c18_worker.compile_one(src, list(flags), 20)


def search_failing_input(ctx, broken, out):
    """a proof no longer checks: look for an input of the lexical classes on which the real functions raise an internal exception"""
    import nmfu, itertools
    P, C = nmfu.ParseCtx, nmfu.CodegenCtx
    found = []
    def probe(name, fn, arg, render):
        try:
            fn(None, *arg) if isinstance(arg, tuple) else fn(None, arg)
        except nmfu.NMFUError:
            pass
        except ValueError as e:
            if name == "_convert_binary_string":
                return
            found.append((name, render, type(e).__name__, str(e)))
        except Exception as e:
            found.append((name, render, type(e).__name__, str(e)))
    alpha = ['a', 'f', '0', '9', 'x', 'u', 'n', 'q', '\\', '"', "'", ' ', '\n', '\xff', '€', 'G', 'g']
    for n in range(0, 5):
        for body in itertools.product(alpha, repeat=n):
            b = "".join(body)
            if re.fullmatch(r'(?:[^"\\]|\\.)*', b):
                probe("_convert_string", P._convert_string, '"' + b + '"', '"%s"' % b)
                probe("_convert_binary_string", P._convert_binary_string, '"' + b + '"', '"%s"b' % b)
            if found:
                break
        if found:
            break
    for c in [chr(i) for i in range(0, 300)] + ['€', '\U0001F600']:
        if c not in "'\\":
            probe("_convert_char_const", P._convert_char_const, "'" + c + "'", "'%s'" % c)
        if c != "\n":
            probe("_convert_char_const", P._convert_char_const, "'\\" + c + "'", "'\\%s'" % c)
        probe("_create_casei_from", nmfu.CaseDirectMatch._create_casei_from, c, repr(c))
        if ord(c) < 256:
            probe("_escape_string", C._escape_string, c, repr(c))
            probe("_escape_string", C._escape_string, bytes([ord(c)]), repr(bytes([ord(c)])))
    rad = nmfu.parser.get_terminal("RADIX_NUMBER").pattern.value
    for sg in ("", "+", "-"):
        for body in ["0", "7", "10", "007", "0x0", "0xfF", "0x" + "f" * 20, "0b", "0b0", "0b101", "9" * 30, "0x", "0b2"]:
            t = sg + body
            if re.fullmatch(rad, t):
                probe("_convert_int", P._convert_int, t, t)
    for sg in (True, False):
        for w in [None] + list(range(-3, 20)) + [32, 64, 2 ** 31, 2 ** 64]:
            probe("_integer_containing", C._integer_containing, (None, sg, w), "signed=%s width=%s" % (sg, w))
    for m in [0, 1, 127, 128, 255, 256, 65535, 65536, 2 ** 31, 2 ** 32 - 1, 2 ** 32, 2 ** 64]:
        probe("_integer_containing", C._integer_containing, (m, False, None), "maxval=%s unsigned" % m)
    # the two statements known to be refuted are reported through their own path
    found = [f for f in found if not (f[0] == "_convert_int" and f[1] == "0b") and not (f[0] == "_integer_containing" and f[2] == "TypeError" and "signed=False" in f[1])]
    if found:
        name, render, exc, msg = found[0]
        ctx.violation("function-internal:%s:%s" % (name, exc), "%s raises %s (%s) on the lexically valid input %s [%s no longer checks]" % (name, exc, msg[:100], render, broken),
                      {"broken": broken, "function": name, "input": render, "exception": exc, "message": msg, "all": found[:10]})
    else:
        ctx.violation("proof-broken:" + broken, "a totality theorem no longer checks and no failing input was found: " + broken,
                      {"broken": broken, "output": out[-2500:]}, found_input=False)


OPEN = [
    # (name, full file, refuted file, witness program on the real compiler, key of part B that carries the defect)
    ("convert_int_total", "OpenIntFull.v", "OpenIntRefuted.v", 'out int n = 0b; parser { "a"; }', "bin-number-without-digits"),
    ("integer_containing_total", "OpenICFull.v", "OpenICRefuted.v", 'out int{unsigned, size 3} x; parser { "a"; }', "int-unsigned-odd-size"),
]


def part_a(ctx):
    from props import c15
    props = os.path.join(COQ, "Props", "C18.v")
    n_thm = len(re.findall(r"^Print Assumptions", open(props).read(), re.M))
    ctx.obligations = n_thm + len(OPEN)
    ok_lex, bin_empty = check_lexical_classes(ctx)
    ctx.coverage["bin_digits_may_be_empty"] = bin_empty
    ok_calls = check_call_sites(ctx)
    err = c15.regenerate(ctx)
    if err:
        ctx.violation("translator-failclosed", "translator cannot translate the current source: " + err, {"broken": "translator (Tie 1) for Gen/GLit.v", "error": err}, found_input=False)
        return
    if not ok_lex:
        return
    rc, out = common.coq_make(["Total/TotalProps.vo"], timeout=900)
    theorems = {}
    if rc != 0:
        m = re.search(r'File "\./([^"]+)", line (\d+)', out)
        broken = "coq/%s:%s" % (m.group(1), c15.theorem_at(os.path.join(COQ, m.group(1)), int(m.group(2)))) if m else "coq build"
        ctx.log("proof build failed at", broken)
        search_failing_input(ctx, broken, out)
    else:
        rc2, out2 = common.coqc_file(props, timeout=600, extra=["-o", os.path.join(OUTDIR, "C18.vo")])
        blocks = common.parse_assumptions(out2)
        if rc2 != 0:
            m = re.search(r'File "([^"]+)", line (\d+)', out2)
            broken = "coq/Props/C18.v:%s" % (c15.theorem_at(props, int(m.group(2))) if m else "?")
            ctx.discharged = len(blocks)
            search_failing_input(ctx, broken, out2)
        else:
            closed = sum(1 for b in blocks if b == "closed")
            ctx.discharged = closed
            axioms = [b for b in blocks if b != "closed"]
            ctx.coverage["print_assumptions"] = "%d theorems of Props/C18.v: Closed under the global context" % closed + ("; AXIOMS: %r" % axioms if axioms else "")
            if axioms or closed != n_thm:
                ctx.violation("axioms", "property theorems depend on axioms or are missing: %r" % axioms, {"broken": "Print Assumptions audit", "output": out2[-2000:]}, found_input=False)
        # the open statements: full theorem if it holds of the current source, else its refutation (confirmed on the real compiler)
        status = {}
        for name, full, refuted, witness, btag in OPEN:
            rcf, outf = common.coqc_file(os.path.join(COQ, "Total", full), timeout=600, extra=["-o", os.path.join(OUTDIR, full + "o")])
            if rcf == 0 and common.parse_assumptions(outf) == ["closed"]:
                status[name] = "proved"
                ctx.discharged += 1
                continue
            rcr, outr = common.coqc_file(os.path.join(COQ, "Total", refuted), timeout=600, extra=["-o", os.path.join(OUTDIR, refuted + "o")])
            blocks_r = common.parse_assumptions(outr)
            if rcr == 0 and blocks_r and all(b == "closed" for b in blocks_r):
                r = real_outcome(witness)
                if r["verdict"] == "internal":
                    status[name] = "refuted (witness confirmed on the compiler: %s; reported by part B under the tag %s)" % (r["message"][:80], btag)
                    ctx.discharged += 1     # the refutation is itself a closed theorem
                else:
                    status[name] = "refuted in the model only"
                    ctx.violation("refutation-not-reproduced:" + name, "the model refutes %s but the compiler answers %s on the witness" % (name, r["verdict"]),
                                  {"broken": "tie model/implementation", "program": witness, "verdict": r["verdict"], "message": r["message"]})
            else:
                status[name] = "neither the theorem nor its refutation checks"
                search_failing_input(ctx, "coq/Total/%s:%s" % (full, name), outf + "\n" + outr)
        ctx.coverage["open_statements"] = status
    hits = common.coq_audit_sources()
    if hits:
        ctx.violation("forbidden-vernacular", "forbidden vernacular in the development: %s" % hits[:3], {"hits": hits}, found_input=False)
    ctx.coverage["theorems"] = re.findall(r"^Theorem (\w+)", open(props).read(), re.M) + [o[0] + " / " + o[0] + "_refuted (Total/Open*.v)" for o in OPEN]
    ctx.coverage["checker_cmd"] = "make -C coq Total/TotalProps.vo && coqc -Q coq NV coq/Props/C18.v && coqc coq/Total/Open*.v (Print Assumptions under every theorem)"
    ctx.samples.append({"theorem": "c18_convert_string_total", "statement": "forall body, string_body body -> forall fuel, length body < fuel -> diagnosed_or is_bytes (convert_string fuel (quote body))"})


def run(ctx):
    ctx.trusted += ["harness/c18_worker.py: the classification of outcomes (mirrors main() of nmfu.py: which exceptions are diagnosed)",
                    "translator/pylite2coq.py + coq/Base/PyLite.v (as for C15; validated against CPython there on every run)",
                    "coq/Total/Lexical.v: the lexical classes, compared with the grammar terminals of the current nmfu.py on every run"]
    ctx.assumptions += ["partial proof: totality (value or diagnosed error, fuel suffices) is PROVED for the translated front-end functions on their whole lexical class; "
                        "for the rest of the compiler 'no internal exception, no hang' is OBSERVED on generated programs x option sets under a time limit, fail-closed",
                        "a compilation slower than the time limit counts as a hang (the limit is 20 s quick / 60 s thorough)",
                        "lark's Earley parser is inside the observed part (its exceptions other than LarkError are internal failures)"]
    ctx.coverage["level_note"] = ("partial proof: Coq theorems cover convert_string / convert_char_const / convert_int / convert_binary_string / integer_containing / "
                                  "escape_string / create_casei_from as regenerated from the current source; everything else is observed by compilation under a time limit")
    part_a(ctx)
    part_b(ctx)
