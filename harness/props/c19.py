"""C19 - command-line options resolve to a consistent configuration.

Tie 1 (tables):  coq/Gen/GFlags.v is regenerated from the imported nmfu module on every run
                 (translator/tables2coq.py); the theorems of coq/Props/C19.v are about that table.
Tie 2 (model):   coq/Flags/FlagsModel.v (resolve / tokenise) is hand-written; it is compared with the real
                 ProgramData.load_commandline_flags on every run:
                   * several thousand command lines (all single and pair settings x levels, sampled
                     permutations, duplicates, option values, malformed arguments), evaluated by the Coq
                     kernel (vm_compute) in parallel shards and compared inside Coq;
                   * exhaustively on all 3^k on/off/absent assignments of the k related flags x every level
                     (canonical order): for this volume the model is extracted (ExtrOcamlBasic only) and run
                     natively; a sample of the extracted results is re-evaluated by the kernel in the same run.
Direct checks:   the property's clauses are also evaluated on the implementation's own results, exhaustively on
                 the 3^k x levels domain, on sampled permutations, and on a pool of malformed arguments.
Any disagreement or failed clause is reported with the exact (shrunk) command line.
"""
import os, sys, re, json, itertools, shutil, shlex, time, io, contextlib
from concurrent.futures import ThreadPoolExecutor
import common
from common import COQ, BUILD, VERIF, sh

LEVEL = "proof"
sys.path.insert(0, os.path.join(VERIF, "translator"))

WORK = os.path.join(BUILD, "c19")
INPUT = "x.nmfu"

# Coq files of this property, in dependency order: (path relative to coq/, direct dependencies)
SHARDS = ["Flags/FlagsShard%s.v" % i for i in list(range(9)) + ["L"]]
COQ_FILES = [
    ("Flags/FlagsModel.v", ["Base/PyLite.v"]),
    ("Gen/GFlags.v", []),
    ("Flags/FlagsProps.v", ["Flags/FlagsModel.v"]),
    ("Flags/FlagsOrder.v", ["Flags/FlagsProps.v"]),
    ("Flags/FlagsTable.v", ["Flags/FlagsProps.v", "Gen/GFlags.v"]),
] + [(s, ["Flags/FlagsTable.v"]) for s in SHARDS] + [
    ("Flags/FlagsThms.v", ["Flags/FlagsOrder.v"] + SHARDS),
    ("Props/C19.v", ["Flags/FlagsThms.v"]),
]
THEOREMS = ["c19_order_independent", "c19_order_independent_any_table", "c19_table_side_condition", "c19_resolve_total",
            "c19_implied_on", "c19_exclusive_never_both", "c19_explicit_both_is_error", "c19_levels_cumulative",
            "c19_overrides_beat_level", "c19_overrides_beat_level_opt", "c19_never_crashes", "c19_unknown_flag_is_error",
            "c19_unknown_long_flag_is_error", "c19_malformed_flag_value_is_error", "c19_malformed_level_is_error",
            "c19_unknown_dump_is_error", "c19_unknown_option_is_error", "c19_unknown_long_option_is_error",
            "c19_missing_value_is_error"]


# ---------------------------------------------------------------------------
# regeneration (Tie 1)
# ---------------------------------------------------------------------------
def regenerate(ctx):
    import tables2coq
    try:
        text = tables2coq.generate()
    except tables2coq.Unsupported as e:
        return str(e)
    common.write_if_changed(os.path.join(COQ, "Gen", "GFlags.v"), text)
    return None


# ---------------------------------------------------------------------------
# building the Coq files (coqc directly, shards in parallel; a small staleness test avoids useless work)
# ---------------------------------------------------------------------------
def vo(p):
    return os.path.join(COQ, p[:-2] + ".vo")


def mtime(p):
    try:
        return os.path.getmtime(p)
    except OSError:
        return -1.0


def coqc(rel, timeout=900):
    return sh(["coqc", "-Q", ".", "NV", rel], cwd=COQ, timeout=timeout)


def build(ctx):
    """returns (ok, failed_file, output, props_output)"""
    rebuilt = set()
    props_out = None
    with common.Lock("coq"):
        if mtime(vo("Base/PyLite.v")) < 0:
            rc, out = coqc("Base/PyLite.v")
            if rc != 0:
                return False, "Base/PyLite.v", out, None

        def stale(rel, deps):
            v = mtime(vo(rel))
            if v < 0 or v < mtime(os.path.join(COQ, rel)):
                return True
            return any(d in rebuilt or mtime(vo(d)) > v for d in deps)

        i = 0
        while i < len(COQ_FILES):
            rel, deps = COQ_FILES[i]
            if rel in SHARDS:
                group = [(r, d) for r, d in COQ_FILES if r in SHARDS]
                todo = [r for r, d in group if stale(r, d)]
                if todo:
                    ctx.log("coqc %d shard(s) of the exhaustive check in parallel" % len(todo))
                    with ThreadPoolExecutor(max_workers=min(len(todo), common.NCPU)) as ex:
                        outs = list(ex.map(coqc, todo))
                    for r, (rc, out) in zip(todo, outs):
                        if rc != 0:
                            return False, r, out, None
                        rebuilt.add(r)
                i += len(group)
                continue
            if rel == "Props/C19.v" or stale(rel, deps):
                rc, out = coqc(rel)
                if rc != 0:
                    return False, rel, out, None
                rebuilt.add(rel)
                if rel == "Props/C19.v":
                    props_out = out
            i += 1
    ctx.coverage["coq_files_rebuilt"] = sorted(rebuilt)
    return True, None, "", props_out


def theorem_at(path, line):
    name = None
    for n, l in enumerate(open(path), 1):
        m = re.match(r"\s*(Theorem|Lemma|Example|Corollary)\s+(\w+)", l)
        if m:
            name = m.group(2)
        if n >= line:
            break
    return name


def audit_sources():
    hits = []
    files = [os.path.join(COQ, r) for r, _ in COQ_FILES]
    for p in files:
        for n, line in enumerate(open(p, errors="replace"), 1):
            l = re.sub(r"\(\*.*?\*\)", "", line)
            if common.FORBIDDEN.search(l):
                hits.append("%s:%d: %s" % (os.path.relpath(p, COQ), n, line.strip()))
    return hits


# ---------------------------------------------------------------------------
# the implementation side
# ---------------------------------------------------------------------------
class Impl:
    """ProgramData.load_commandline_flags of the imported tree + the metadata it works with"""
    def __init__(self):
        import nmfu, tables2coq
        self.nmfu = nmfu
        self.PD = nmfu.ProgramData
        self.PF = nmfu.ProgramFlag
        self.t = tables2coq.dump_tables(nmfu)
        self.flags = [self.PF(f[0]) for f in self.t["flags"]]          # table order
        self.ids = [f[0] for f in self.t["flags"]]
        self.name_of = {f[0]: f[4] for f in self.t["flags"]}
        self.id_of_name = {n: v for n, v in self.t["names"]}
        self.implies = {f[0]: list(f[2]) for f in self.t["flags"]}
        self.exclusive = {f[0]: list(f[3]) for f in self.t["flags"]}
        self.levels = [lv for lv, _ in self.t["levels"]]
        self.level_flags = [x for _, fl in self.t["levels"] for x in fl]
        mentioned = set(x for f in self.t["flags"] for x in f[2] + f[3])
        self.relevant = [f[0] for f in self.t["flags"] if f[2] or f[3] or f[0] in mentioned]
        self.options = list(self.nmfu.ProgramOption)
        self.dumps = [x for x in self.nmfu.DebugDumpable]

    def dashed(self, fid):
        return self.name_of[fid].lower().replace("_", "-")

    def run(self, args):
        """-> ('ok', flags tuple (table order), options tuple, dumps tuple, dry) | ('error', code, msg)
              | ('crash', ExcName, msg) | ('exit',)"""
        PD = self.PD
        try:
            with contextlib.redirect_stdout(io.StringIO()):
                PD.load_commandline_flags(list(args))
        except RuntimeError as e:
            return ("error", self.err_code(str(e)), str(e))
        except SystemExit:
            return ("exit",)
        except Exception as e:
            return ("crash", type(e).__name__, str(e))
        fl = PD._flags
        return ("ok", tuple(bool(PD.do(f)) for f in self.flags), tuple(PD.option(o) for o in self.options),
                tuple(self.dumps.index(d) for d in PD._dump), bool(PD.dry_run))

    def err_code(self, msg):
        m = re.match(r"Conflict between (\w+) and (\w+)$", msg)
        if m and m.group(1) in self.id_of_name and m.group(2) in self.id_of_name:
            return 1000000 + self.id_of_name[m.group(1)] * 1000 + self.id_of_name[m.group(2)]
        for code, pre in ((1, "Unknown flag "), (2, "Unknown option "), (3, "Invalid argument "), (4, "Missing value for argument "),
                          (5, "Program filename specified multiple times"), (6, "No input file provided!"),
                          (7, "Program output should not contain an extension"), (8, "Invalid value for option "),
                          (9, "Invalid optimization level "), (10, "Invalid value for flag "), (11, "Unknown dump target ")):
            if msg.startswith(pre):
                return code
        return 99

    def digest(self, out):
        """the list of integers FlagsModel's result is mapped to by [digest] in the generated Coq files"""
        if out[0] == "ok":
            bits = 1
            for b in out[1]:
                bits = 2 * bits + (1 if b else 0)
            d = [0, bits, 1 if out[4] else 0, len(out[3])] + list(out[3])
            for v in out[2]:
                if isinstance(v, int) and not isinstance(v, bool):
                    d += [0, v]
                else:
                    s = str(v)
                    d += [1, len(s)] + [ord(c) for c in s]
            return d
        if out[0] == "error":
            return [1, out[1]]
        if out[0] == "crash":
            return [2, {"KeyError": 1, "ValueError": 2}.get(out[1], 99)]
        return [4]

    def on_names(self, out):
        return [self.name_of[i] for i, b in zip(self.ids, out[1]) if b]


CAPS = {"malformed-crash": 30, "malformed-accepted": 30}


def viol(ctx, key, what, replay, found_input=True):
    """ctx.violation, once per key, and at most CAPS (default 3) witnesses per category (the part of the key before ':')"""
    seen = ctx.__dict__.setdefault("_c19_keys", set())
    counts = ctx.__dict__.setdefault("_c19_counts", {})
    if key in seen:
        return
    cat = key.split(":")[0]
    counts[cat] = counts.get(cat, 0) + 1
    if counts[cat] > CAPS.get(cat, 3):
        ctx.coverage["further_witnesses_not_listed"] = {c: n - CAPS.get(c, 3) for c, n in counts.items() if n > CAPS.get(c, 3)}
        return
    seen.add(key)
    ctx.violation(key, what, replay, found_input=found_input)


def flag_arg(impl, fid, val, style=0):
    n = impl.dashed(fid)
    if style == 0:
        return ["-f" + n] if val else ["-fno-" + n]
    if style == 1:
        return ["--flag", n + ("=yes" if val else "=no")]
    if style == 2:
        return ["--flag", n + ("=on" if val else "=off")]
    if style == 3:
        return ["--flag", n] if val else ["-fno-" + impl.name_of[fid]]           # upper-case / underscore spelling
    return ["-f" + impl.name_of[fid].lower()] if val else ["--flag", impl.name_of[fid] + "=off"]


def cmdline(impl, level, ovs, style=0, input_first=False):
    a = [] if level is None else ["-O%d" % level]
    for k, (fid, val) in enumerate(ovs):
        a += flag_arg(impl, fid, val, style if isinstance(style, int) else style[k % len(style)])
    return ([INPUT] + a) if input_first else (a + [INPUT])


def show(args):
    return " ".join(shlex.quote(a) for a in args)


# ---------------------------------------------------------------------------
# the property's clauses, evaluated on results of the implementation
# ---------------------------------------------------------------------------
def last_overrides(ovs):
    d = {}
    for k, v in ovs:
        d[k] = v
    return d


def clause_failures(impl, level, ovs, out):
    """clauses that concern one command line: -> list of (clause, detail)"""
    bad = []
    d = last_overrides(ovs)
    both = [(f, g) for f in d if d[f] for g in impl.exclusive[f] if d.get(g)]
    if out[0] == "ok":
        on = dict(zip(impl.ids, out[1]))
        for f in impl.ids:
            if on[f]:
                for g in impl.implies[f]:
                    if not on.get(g, False):
                        bad.append(("implied-on", "%s is on but the flag it implies, %s, is off" % (impl.name_of[f], impl.name_of[g])))
                for g in impl.exclusive[f]:
                    if on.get(g, False):
                        bad.append(("exclusive-never-both", "mutually exclusive %s and %s are both on" % (impl.name_of[f], impl.name_of[g])))
        if both:
            f, g = both[0]
            bad.append(("explicit-both-is-error", "%s and %s are exclusive, both explicitly requested, and no error is raised" % (impl.name_of[f], impl.name_of[g])))
        for k, v in d.items():
            if v and not on[k]:
                bad.append(("override-on", "%s explicitly enabled but off" % impl.name_of[k]))
            if not v and on[k] and not any(on[h] and k in impl.implies[h] for h in impl.ids):
                bad.append(("override-off", "%s explicitly disabled but on (and no enabled flag implies it)" % impl.name_of[k]))
        if level is not None and level >= 0:
            for lv, fl in impl.t["levels"]:
                if lv <= level:
                    for x in fl:
                        if x not in d and not on[x]:
                            bad.append(("level-table", "-O%d should enable %s" % (level, impl.name_of[x])))
    elif out[0] == "error":
        if out[1] >= 1000000:
            a, b = (out[1] - 1000000) // 1000, (out[1] - 1000000) % 1000
            if not d.get(a) or a not in impl.exclusive.get(b, []):
                bad.append(("unjustified-error", "error %r although %s is not explicitly on / not exclusive with %s" % (out[2], impl.name_of.get(a), impl.name_of.get(b))))
        else:
            bad.append(("unexpected-error", "well-formed command line rejected: %r" % out[2]))
    else:
        bad.append(("internal-crash", "well-formed command line gives %r" % (out,)))
    return bad


def same_outcome(o1, o2):
    if o1[0] != o2[0]:
        return False
    if o1[0] == "ok":
        return o1[1:] == o2[1:]
    if o1[0] == "crash":
        return o1[1] == o2[1]
    return True          # both errors / both exits


def cumulative_failure(impl, o_lo, o_hi):
    if o_lo[0] != o_hi[0]:
        return "outcome kinds differ between consecutive levels: %s vs %s" % (o_lo[0], o_hi[0])
    if o_lo[0] == "ok":
        for i, a, b in zip(impl.ids, o_lo[1], o_hi[1]):
            if a and not b:
                return "%s is on at the lower level and off at the higher one" % impl.name_of[i]
    return None


def shrink(args, fails):
    """greedy removal of arguments (keeping the input file) while [fails(args)] stays true"""
    args = list(args)
    changed = True
    while changed:
        changed = False
        i = 0
        while i < len(args):
            if args[i] == INPUT:
                i += 1
                continue
            n = 2 if args[i] in ("--flag",) or (args[i].startswith("--") and i + 1 < len(args) and args[i] not in ("--help", "--dry-run", "--version", "--help-all")) else 1
            cand = args[:i] + args[i + n:]
            try:
                ok = fails(cand)
            except Exception:
                ok = False
            if ok:
                args = cand
                changed = True
            else:
                i += 1
    return args


# ---------------------------------------------------------------------------
# exhaustive evaluation on the implementation (3^k assignments x levels), in worker processes
# ---------------------------------------------------------------------------
def fold_assigns(fs):
    """the assignments of fs in the order in which [fold_assigns] of the generated Coq file processes them"""
    def go(fs, f, acc):
        if not fs:
            return f([], acc)
        x, r = fs[0], fs[1:]
        return go(r, lambda l, acc: f([(x, False)] + l, f([(x, True)] + l, f(l, acc))), acc)
    return go(list(fs), lambda l, acc: (acc.append(l) or acc), [])


def assigns(fs):
    if not fs:
        return [[]]
    A = assigns(fs[1:])
    return A + [[(fs[0], True)] + a for a in A] + [[(fs[0], False)] + a for a in A]


_W = {}


def _worker_init():
    _W["impl"] = Impl()


def _exhaustive_task(task):
    """one (prefix, level): run every assignment pre ++ l, return packed results + clause failures"""
    pre, rest, level = task
    impl = _W.get("impl") or Impl()
    _W["impl"] = impl
    nfl = len(impl.ids)
    W = nfl + 2
    tagE = 1 << (W - 1)
    tagC = tagE + (1 << (W - 2))
    res = []
    fails = []
    outs = {}
    for l in fold_assigns(rest):
        ovs = pre + l
        args = cmdline(impl, level, ovs)
        out = impl.run(args)
        if out[0] == "ok":
            v = 0
            for b in out[1]:
                v = 2 * v + (1 if b else 0)
        elif out[0] == "error" and out[1] >= 1000000:
            v = tagE + ((out[1] - 1000000) // 1000) * 1024 + (out[1] - 1000000) % 1000
        elif out[0] == "error":
            v = tagE + 1023 * 1024
        elif out[0] == "crash":
            v = tagC + {"KeyError": 1, "ValueError": 2}.get(out[1], 9)
        else:
            v = tagC + 8
        res.append(v)
        if len(fails) < 20:
            for cl, detail in clause_failures(impl, level, ovs, out):
                fails.append((cl, detail, args))
    return (pre, level, res, fails)


# ---------------------------------------------------------------------------
# Coq-side evaluation of the model
# ---------------------------------------------------------------------------
def coq_string(s):
    assert all(32 <= ord(c) < 127 for c in s), s
    return '"' + s.replace('"', '""') + '"'


CASES_PRE = r"""From Coq Require Import NArith ZArith List Bool String.
Import ListNotations.
From NV Require Import Flags.FlagsModel Flags.FlagsTable.
Open Scope string_scope.
Fixpoint zl_eqb (a b : list Z) : bool :=
  match a, b with [], [] => true | x :: a', y :: b' => Z.eqb x y && zl_eqb a' b' | _, _ => false end.
Definition enc_err (e : errkind) : Z :=
  match e with
  | EConflict a b => 1000000 + Z.of_N a * 1000 + Z.of_N b
  | EUnknownFlag => 1 | EUnknownOption => 2 | EInvalidArgument => 3 | EMissingValue => 4
  | EMultipleFilenames => 5 | ENoInput => 6 | EOutputExtension => 7 | EInvalidOptionValue => 8
  | EInvalidLevel => 9 | EInvalidFlagValue => 10 | EUnknownDump => 11
  end%Z.
Definition enc_opt (o : optval) : list Z :=
  match o with OInt z => [0; z]%Z | OStr s => (1 :: Z.of_nat (List.length s) :: map Z.of_N s)%Z end.
Definition digest (r : result (option final)) : list Z :=
  match r with
  | Ok (Some f) =>
      (0 :: fold_left (fun (acc : Z) (kv : N * bool) => 2 * acc + (if snd kv then 1 else 0)) (f_flags f) 1
         :: (if f_dry f then 1 else 0) :: Z.of_nat (List.length (f_dumps f)) :: map Z.of_nat (f_dumps f)
         ++ flat_map enc_opt (f_options f))%Z
  | Ok None => [4]%Z
  | Error e => [1; enc_err e]%Z
  | Crash KeyError => [2; 1]%Z
  | Crash ValueError => [2; 2]%Z
  | Fuel => [3]%Z
  end.
Definition model (args : list string) : list Z := digest (run_cmdline gT (map s2l args)).
"""


def write_case_file(path, cases):
    """cases: list of (args, expected digest)"""
    L = [CASES_PRE]
    L.append("Definition bad : list nat := map fst (filter (fun c => negb (snd c)) [")
    L.append(";\n".join("(%d%%nat, zl_eqb (model [%s]) [%s]%%Z)" % (k, "; ".join(coq_string(a) for a in args), "; ".join(str(x) for x in dg))
                        for k, (args, dg) in enumerate(cases)))
    L.append("]).")
    L.append("Eval vm_compute in bad.")
    open(path, "w").write("\n".join(L) + "\n")


def model_digests(arg_lists):
    """what the model says for a few command lines (used to fill replays)"""
    path = os.path.join(WORK, "probe.v")
    L = [CASES_PRE]
    for args in arg_lists:
        L.append("Eval vm_compute in model [%s]." % "; ".join(coq_string(a) for a in args))
    open(path, "w").write("\n".join(L) + "\n")
    rc, out = common.coqc_file(path, timeout=300)
    res = re.findall(r"=\s*(\[[^\]]*\]|nil)", out.replace("\n", " "))
    outl = []
    for r in res:
        outl.append([int(x) for x in re.findall(r"-?\d+", r)])
    while len(outl) < len(arg_lists):
        outl.append(None)
    return outl


def describe_digest(impl, dg):
    if dg is None:
        return "(model evaluation failed)"
    if dg[0] == 0:
        bits = bin(dg[1])[3:]
        return "Ok: on = %s" % [impl.name_of[i] for i, b in zip(impl.ids, bits) if b == "1"]
    if dg[0] == 1:
        c = dg[1]
        if c >= 1000000:
            return "RuntimeError: Conflict between %s and %s" % (impl.name_of.get((c - 1000000) // 1000), impl.name_of.get((c - 1000000) % 1000))
        return "RuntimeError kind %d (1 unknown flag, 2 unknown option, 3 invalid argument, 4 missing value, 5 two filenames, 6 no input, 7 output extension, 8 invalid option value, 9 invalid -O level, 10 invalid --flag value, 11 unknown dump target)" % c
    if dg[0] == 2:
        return "internal crash: %s" % {1: "KeyError", 2: "ValueError"}.get(dg[1], "?")
    return {3: "out of fuel", 4: "exit(0)"}.get(dg[0], "?")


EXH_DEFS = r"""From Coq Require Import NArith ZArith List Bool.
Import ListNotations.
From NV Require Import Flags.FlagsModel Flags.FlagsProps Flags.FlagsTable.
Definition W : nat := (length (mflags gm) + 2)%nat.
Definition tagE : N := N.shiftl 1 (N.of_nat (W - 1)).
Definition tagC : N := (tagE + N.shiftl 1 (N.of_nat (W - 2)))%N.
(* one resolve result as a number: the on/off bits in table order, or a tagged error / crash code *)
Definition rdig (r : result config) : N :=
  match r with
  | Ok c => fold_left (fun (acc : N) (b : bool) => (2 * acc + (if b then 1 else 0))%N) (bview gm c) 0%N
  | Error (EConflict a b) => (tagE + a * 1024 + b)%N
  | Error _ => (tagE + 1023 * 1024)%N
  | Crash KeyError => (tagC + 1)%N
  | Crash ValueError => (tagC + 2)%N
  | Fuel => (tagC + 3)%N
  end.
Fixpoint fold_assigns {A} (fs : list N) (f : list (N * bool) -> A -> A) (acc : A) : A :=
  match fs with
  | [] => f [] acc
  | x :: r => fold_assigns r (fun l acc => f ((x, false) :: l) (f ((x, true) :: l) (f l acc))) acc
  end.
Definition rest : list N := skipn split_at (relevant gm).
(* results of shard i at level lv, in REVERSE processing order (consed) *)
Definition shard_digests (i : nat) (lv : nat) : list N :=
  match nth_error (prefixes gm) i with
  | Some pre => let rf := fast_resolve gm in
      fold_assigns rest (fun l acc => rdig (rf (Z.of_nat lv) (pre ++ l)) :: acc) []
  | None => []
  end.
Definition n_shards : nat := length (prefixes gm).
Definition n_levels : nat := length (mlevels gm).
"""

EXH_MAIN = r"""open Flags_ex
let rec int_of_pos = function XH -> 1 | XO p -> 2 * int_of_pos p | XI p -> 2 * int_of_pos p + 1
let int_of_n = function N0 -> 0 | Npos p -> int_of_pos p
let rec int_of_nat = function O -> 0 | S n -> 1 + int_of_nat n
let rec nat_of_int n = if n = 0 then O else S (nat_of_int (n - 1))
let () =
  let ns = int_of_nat n_shards and nl = int_of_nat n_levels in
  for i = 0 to ns - 1 do
    for lv = 0 to nl - 1 do
      let l = shard_digests (nat_of_int i) (nat_of_int lv) in
      Printf.printf "S %d %d" i lv;
      List.iter (fun d -> Printf.printf " %d" (int_of_n d)) (List.rev l);
      print_newline ()
    done
  done
"""


def exhaustive_model(ctx, impl):
    """the model's results on the whole 3^k x levels domain: {(shard, level): [ints in processing order]}.
    Volume path: the Gallina definitions are extracted (ExtrOcamlBasic only) and run natively; a sample of the
    extracted results is re-evaluated by the kernel's VM in the same run."""
    d = os.path.join(WORK, "ex")
    os.makedirs(d, exist_ok=True)
    open(os.path.join(d, "extract.v"), "w").write(
        EXH_DEFS + 'From Coq Require Import Extraction ExtrOcamlBasic.\nExtraction "flags_ex.ml" shard_digests n_shards n_levels.\n')
    open(os.path.join(d, "main.ml"), "w").write(EXH_MAIN)
    rc, out = sh(["coqc", "-Q", COQ, "NV", "extract.v"], cwd=d, timeout=600)
    if rc != 0:
        return None, out
    rc, out = sh(["ocamlfind", "ocamlopt", "-O3", "flags_ex.mli", "flags_ex.ml", "main.ml", "-o", "flags_ex"], cwd=d, timeout=600)
    if rc != 0:
        return None, out
    rc, out = sh([os.path.join(d, "flags_ex")], cwd=d, timeout=900)
    if rc != 0:
        return None, out[-3000:]
    res = {}
    for line in out.splitlines():
        if line.startswith("S "):
            p = line.split()
            res[(int(p[1]), int(p[2]))] = [int(x) for x in p[3:]]
    return res, ""


def kernel_spot_check(ctx, impl, mres, prefixes, all_rest, n=24):
    """re-evaluate a sample of the extracted results with vm_compute; -> list of (shard, level, idx, extracted, kernel)"""
    rng = ctx.rng
    picks = []
    for _ in range(n):
        si = rng.randrange(len(prefixes))
        lv = rng.choice(impl.levels)
        idx = rng.randrange(len(all_rest))
        picks.append((si, lv, idx))
    path = os.path.join(WORK, "spot.v")
    L = [EXH_DEFS]
    for si, lv, idx in picks:
        l = prefixes[si] + all_rest[idx]
        L.append("Eval vm_compute in rdig (resolve gm %d [%s]%%N)." % (lv, "; ".join("(%d, %s)" % (k, "true" if v else "false") for k, v in l)))
    open(path, "w").write("\n".join(L) + "\n")
    rc, out = common.coqc_file(path, timeout=600)
    vals = [int(x) for x in re.findall(r"=\s*(\d+)%N", out)]
    bad = []
    if rc != 0 or len(vals) != len(picks):
        return None
    for (si, lv, idx), v in zip(picks, vals):
        if mres[(si, lv)][idx] != v:
            bad.append((si, lv, idx, mres[(si, lv)][idx], v))
    return bad


# ---------------------------------------------------------------------------
# case generation for the command-line correspondence
# ---------------------------------------------------------------------------
MALFORMED_POOL = [
    # arguments (with their value) that a correct front end answers with a RuntimeError (exit status 1)
    ["-Ofoo"], ["-O"], ["-O9"], ["-O4"], ["-O-1"], ["-O1.5"], ["-O2x"], ["-O1_0"], ["-O0x1"],
    ["--flag", "eof-support=yes=no"], ["--flag", "a=b=c"], ["--flag", "=yes"], ["--flag", "nosuchflag=yes"], ["--flag", "nosuchflag"],
    ["--flag", "eof-support=maybe"], ["--flag", "eof-support=true"], ["--flag", "eof-support=YES"], ["--flag", "eof-support=1"],
    ["--flag", "eof-support="], ["--flag", "eof-support=yes "], ["--flag", "nosuchflag=maybe"],
    ["-fnosuchflag"], ["-fno-nosuchflag"], ["-f"], ["-fno-"], ["-fno-no-eof-support"], ["-feof support"], ["-fmax-shortcircuit-fallthrough"],
    ["-feof-support=yes"],
    ["-dfoo"], ["-d"], ["-dast,,dfa"], ["--dump", "foo"], ["--dump", "ast,nope"], ["-dAST"],
    ["-x"], ["-X3"], ["-"], ["--nosuchoption", "3"], ["--eof-support", "1"], ["--O3", "1"], ["-o", "--", "1"],
    ["--collapsed-range-length", "abc"], ["--collapsed-range-length", ""], ["--max-shortcircuit-fallthrough", "1e3"],
    ["--debug-dfa-hide-threshold", "0x10"], ["-ofoo.c"], ["--output", "a.b"], ["second.nmfu"],
]
MALFORMED_TRAILING = [["--flag"], ["--collapsed-range-length"], ["--output"], ["--dump"], ["--dump-prefix"], ["--nosuchoption"]]
# accepted spellings and leniencies of the front end that the property does not call malformed (aliases of the
# short options written with two dashes, int() spellings of a valid level, ignored text after -t, an empty
# argument, a negative option value): recorded in the evidence, never reported
LENIENT_POOL = [["-tjunk"], ["--t", "zz"], ["--o", "out"], ["--d", "ast"], ["--f", "eof-support"], ["--O", "2"],
                ["-O+2"], ["-O 2"], ["-O02"], ["-O0_1"], ["--collapsed-range-length", "-5"], ["--collapsed-range-length", " 7 "],
                ["-fEOF_SUPPORT"], ["-feof_support"], ["--flag", "EOF-SUPPORT=on"], [""]]
VALID_EXTRAS = [["-t"], ["--dry-run"], ["-dast"], ["-ddfa,ast"], ["--dump", "parse"], ["--dump-prefix", "pfx"], ["-oname"], ["--output", "name"],
                ["--collapsed-range-length", "7"], ["--max-shortcircuit-fallthrough", "0"], ["--max-shortcircuit-action-penalty", "12"],
                ["--debug-dfa-hide-threshold", "3"], ["--debug-graph-dump-format", "dot"], ["--collapsed-range-length", "+3"]]


def gen_cases(ctx, impl):
    """-> list of dicts {args, kind, level, ovs (or None)}"""
    rng = ctx.rng
    cases = []
    rel, opt = impl.relevant, impl.level_flags
    lv_choices = impl.levels

    def add(args, kind, level=None, ovs=None, mal=None):
        cases.append({"args": args, "kind": kind, "level": level, "ovs": ovs, "mal": mal})

    add([INPUT], "plain", None, [])
    for lv in lv_choices:
        add(cmdline(impl, lv, []), "level", lv, [])
    # singles: every flag x on/off x every level (+ no -O), alternating spellings
    k = 0
    for f in impl.ids:
        for v in (True, False):
            for lv in lv_choices + [None]:
                add(cmdline(impl, lv, [(f, v)], style=k % 5, input_first=(k % 7 == 0)), "single", lv, [(f, v)])
                k += 1
    # ordered pairs of related flags x 4 value combinations x all levels
    for f, g in itertools.permutations(rel, 2):
        for vf in (True, False):
            for vg in (True, False):
                for lv in lv_choices:
                    add(cmdline(impl, lv, [(f, vf), (g, vg)], style=(k % 3)), "pair", lv, [(f, vf), (g, vg)])
                    k += 1
    # ordered pairs involving optimisation flags (one level each)
    both = rel + opt
    for f, g in itertools.permutations(both, 2):
        if f in opt or g in opt:
            for vf in (True, False):
                for vg in (True, False):
                    lv = lv_choices[k % len(lv_choices)]
                    add(cmdline(impl, lv, [(f, vf), (g, vg)], style=(k % 3)), "pair-opt", lv, [(f, vf), (g, vg)])
                    k += 1
    # sampled assignments of 3..8 related flags, several orders each
    n_assign = 250 if ctx.tier == "quick" else 2500
    for _ in range(n_assign):
        n = rng.randint(3, min(8, len(rel)))
        fs = rng.sample(rel, n)
        ovs = [(f, rng.random() < 0.6) for f in fs]
        extra = [(f, rng.random() < 0.5) for f in rng.sample([i for i in impl.ids if i not in rel], rng.randint(0, 3))]
        lv = rng.choice(lv_choices)
        for _p in range(3):
            o = ovs + extra
            rng.shuffle(o)
            add(cmdline(impl, lv, o, style=[rng.randrange(5) for _ in o]), "perm", lv, list(o))
    # duplicates: the same flag several times with different values (dict semantics: first position, last value)
    for _ in range(150 if ctx.tier == "quick" else 1000):
        fs = rng.sample(rel, rng.randint(1, 4))
        o = [(f, rng.random() < 0.5) for f in fs for _r in range(rng.randint(1, 3))]
        rng.shuffle(o)
        lv = rng.choice(lv_choices + [None])
        add(cmdline(impl, lv, o, style=[rng.randrange(3) for _ in o]), "dup", lv, list(o))
    # valid extras, alone and mixed
    for e in VALID_EXTRAS:
        add(e + [INPUT], "extra")
        add([INPUT] + e, "extra")
    for _ in range(100 if ctx.tier == "quick" else 600):
        parts = [rng.choice(VALID_EXTRAS) for _r in range(rng.randint(1, 4))]
        fs = rng.sample(impl.ids, rng.randint(0, 4))
        for f in fs:
            parts.append(flag_arg(impl, f, rng.random() < 0.5, rng.randrange(5)))
        if rng.random() < 0.7:
            parts.append(["-O%d" % rng.choice(lv_choices)])
        parts.append([INPUT])
        rng.shuffle(parts)
        add([a for p in parts for a in p], "mixed")
    # malformed: each pool element alone (before and after the input), trailing long options without value
    for e in MALFORMED_POOL:
        add(e + [INPUT], "malformed", mal=[e])
        if e != ["second.nmfu"]:
            add([INPUT] + e, "malformed", mal=[e])
    for e in MALFORMED_TRAILING:
        add([INPUT] + e, "malformed", mal=[])
    add([], "malformed", mal=[])
    add(["-O2"], "malformed", mal=[])
    for e in LENIENT_POOL:
        add(e + [INPUT], "lenient")
    # random long command lines with one or two malformed arguments somewhere
    for _ in range(300 if ctx.tier == "quick" else 3000):
        parts = [rng.choice(VALID_EXTRAS) for _r in range(rng.randint(0, 3))]
        for f in rng.sample(impl.ids, rng.randint(1, 6)):
            parts.append(flag_arg(impl, f, rng.random() < 0.5, rng.randrange(5)))
        parts.append(["-O%d" % rng.choice(lv_choices)])
        parts.append([INPUT])
        mal = [rng.choice(MALFORMED_POOL[:-1]) for _m in range(rng.randint(1, 2))]
        parts += mal
        rng.shuffle(parts)
        add([a for p in parts for a in p], "malformed-long", mal=mal)
    add(["--help"], "exit")
    add(["-h", INPUT], "exit")
    add([INPUT, "--version"], "exit")
    add(["--help-all", "-Ofoo"], "exit")
    return cases


# ---------------------------------------------------------------------------
def report_malformed(ctx, impl, elem, found_in=None):
    """a malformed argument (with its value) that is not answered with a RuntimeError when given alone"""
    args = list(elem) + [INPUT]
    o = impl.run(args)
    if o[0] == "error":
        return False
    if o[0] == "crash":
        key = "malformed-crash:%s:%s" % (o[1], show(args))
        what = ("malformed command line `nmfu %s` is not reported as an error: %s(%s) escapes load_commandline_flags "
                "(main() only catches RuntimeError, so the user gets a traceback)" % (show(args), o[1], o[2]))
    else:
        key = "malformed-accepted:%s" % show(args)
        what = "malformed command line `nmfu %s` is accepted silently (%s)" % (show(args), "on: " + ",".join(impl.on_names(o)) if o[0] == "ok" else o[0])
    viol(ctx, key, what, {"broken": "unknown/malformed options must be reported as errors", "command_line": args,
                          "found_in": found_in or args, "observed": repr(o), "expected": "RuntimeError (diagnosed, exit status 1)"})
    return True


def run(ctx):
    t0 = time.time()
    shutil.rmtree(WORK, ignore_errors=True)
    os.makedirs(WORK, exist_ok=True)
    props = os.path.join(COQ, "Props", "C19.v")
    ctx.obligations = len(re.findall(r"^Print Assumptions", open(props).read(), re.M))
    ctx.trusted += ["translator/tables2coq.py (dump of ProgramFlag/ProgramOption/_OPTIMIZE_LEVELS metadata of the imported module into Gallina data)",
                    "coq/Flags/FlagsModel.v: hand-written model of load_commandline_flags (tokenising loop + resolve), tied to the implementation by the correspondence runs of this check",
                    "coq/Base/PyLite.v: py_int_lit (reading of int(str)), validated against CPython by C15's check"]
    ctx.assumptions += ["modelled, not verified: CPython itself (dict order, exception classes); str.upper() is modelled for ASCII only",
                        "outside the model: program output name derivation, --dump-prefix, message texts, the help screen (exit(0))",
                        "the finite theorems are bounded to override lists over the related flags (or over the level-table flags), each flag at most once, any order; order independence is unbounded"]
    err = regenerate(ctx)
    impl = Impl()
    ctx.coverage["related_flags"] = [impl.name_of[i] for i in impl.relevant]
    ctx.coverage["levels"] = impl.levels
    if err:
        ctx.log("tables2coq failed closed:", err)
        found = implementation_search(ctx, impl, "translator (Tie 1) for Gen/GFlags.v: " + err)
        if not found:
            viol(ctx, "translator-failclosed", "tables2coq cannot translate the current metadata: " + err,
                          {"broken": "translator (Tie 1) for Gen/GFlags.v", "error": err}, found_input=False)
        return

    # 1. proofs -------------------------------------------------------------------------------------------
    tb = time.time()
    ok, failed, out, props_out = build(ctx)
    ctx.coverage["coq_build_s"] = round(time.time() - tb, 1)
    broken = None
    if not ok:
        m = re.search(r'File "\./([^"]+)", line (\d+)', out)
        where = theorem_at(os.path.join(COQ, m.group(1)), int(m.group(2))) if m else None
        broken = "coq/%s:%s" % (failed, where or "?")
        ctx.log("proof build failed at", broken)
        ctx.log(out[-1500:])
    else:
        blocks = common.parse_assumptions(props_out)
        ctx.discharged = sum(1 for b in blocks if b == "closed")
        axioms = [b for b in blocks if b != "closed"]
        ctx.coverage["print_assumptions"] = "%d theorems: Closed under the global context" % ctx.discharged + ("; AXIOMS: %r" % axioms if axioms else "")
        if axioms or ctx.discharged != ctx.obligations:
            viol(ctx, "axioms", "property theorems depend on axioms or are missing: %r" % axioms,
                          {"broken": "Print Assumptions audit", "output": props_out[-2000:]}, found_input=False)
    hits = audit_sources()
    if hits:
        viol(ctx, "forbidden-vernacular", "forbidden vernacular in the C19 development: %s" % hits[:3], {"hits": hits}, found_input=False)
    ctx.coverage["theorems"] = THEOREMS
    ctx.coverage["checker_cmd"] = "coqc -Q coq NV on Flags/*.v (shards in parallel) and Props/C19.v; Print Assumptions under every theorem"

    # 2. the property's clauses on the implementation, exhaustively on 3^k x levels --------------------------
    found_any = implementation_search(ctx, impl, broken or "direct evaluation")

    # 3. correspondence model <-> implementation -------------------------------------------------------------
    model_ok = ok or all(mtime(vo(r)) > 0 for r in ("Flags/FlagsModel.v", "Flags/FlagsTable.v", "Flags/FlagsProps.v"))
    if model_ok:
        correspondence(ctx, impl)
    else:
        ctx.notes.append("model files did not compile: correspondence not run")

    found_related = any(not k.startswith("malformed-") for k in ctx.__dict__.get("_c19_keys", ()))
    if broken and not found_related:
        viol(ctx, "proof-broken:" + broken, "a C19 proof no longer checks against the regenerated table and no failing command line was found: " + broken,
                      {"broken": broken, "output": out[-3000:]}, found_input=False)
    ctx.coverage["rule"] = ("load_commandline_flags(args) == FlagsModel.run_cmdline(args) (configuration, option values, dump list, dry-run, error kind); "
                            "clauses: implied on, exclusives never both, explicit both -> RuntimeError, -O cumulative, overrides beat level, order independent, "
                            "malformed -> RuntimeError only")
    ctx.samples.append({"theorem": "c19_order_independent", "statement": "forall lv l1 l2, NoDup (map fst l1) -> Permutation l1 l2 -> res_equiv (resolve gm lv l1) (resolve gm lv l2)"})
    ctx.samples.append({"theorem": "c19_implied_on", "statement": "forall lv l c, In lv (levels gm) -> in_domain l -> resolve gm lv l = Ok c -> forall f g, In g (gimplies f) -> get c f = true -> get c g = true"})


def implementation_search(ctx, impl, broken):
    """evaluate the clauses on the implementation: exhaustive 3^k x levels (canonical order) in worker processes,
    then order independence and cumulativity on the same results.  Returns True iff something was reported."""
    import multiprocessing as mp
    rel = impl.relevant
    split = min(2, len(rel))
    prefixes = assigns(rel[:split])
    rest = rel[split:]
    tasks = [(pre, rest, lv) for pre in prefixes for lv in impl.levels]
    t0 = time.time()
    try:
        with mp.get_context("fork").Pool(min(common.NCPU, len(tasks)), initializer=_worker_init) as pool:
            results = pool.map(_exhaustive_task, tasks)
    except Exception as e:
        ctx.notes.append("process pool failed (%r): exhaustive evaluation run in-process" % (e,))
        results = [_exhaustive_task(t) for t in tasks]
    n_eval = sum(len(r[2]) for r in results)
    ctx.coverage["impl_exhaustive_cmdlines"] = n_eval
    ctx.coverage["impl_exhaustive_s"] = round(time.time() - t0, 1)
    ctx.impl_exhaustive = {(tuple(pre), lv): res for pre, lv, res, _ in results}
    ctx.impl_prefixes = prefixes
    ctx.impl_rest = rest
    reported = 0
    seen = set()
    for pre, lv, res, fails in results:
        for cl, detail, args in fails:
            if reported >= 6:
                break
            # shrink: keep the clause failing
            def still(a, cl=cl):
                lvl, ovs = parse_simple(impl, a)
                if ovs is None:
                    return False
                return any(c == cl for c, _ in clause_failures(impl, lvl, ovs, impl.run(a)))
            small = shrink(args, still)
            key = "%s:%s" % (cl, show(small))
            if key in seen:
                continue
            seen.add(key)
            lvl, ovs = parse_simple(impl, small)
            o = impl.run(small)
            det = [d for c, d in clause_failures(impl, lvl, ovs, o) if c == cl]
            viol(ctx, key, "`nmfu %s`: %s" % (show(small), det[0] if det else detail),
                          {"broken": broken, "clause": cl, "command_line": small, "observed": repr(o),
                           "on": impl.on_names(o) if o[0] == "ok" else None})
            reported += 1
    # -O cumulative on the exhaustive results
    W = len(impl.ids) + 2
    tagE = 1 << (W - 1)
    lvls = sorted(impl.levels)
    n_cum = 0
    for pre in prefixes:
        for a, b in zip(lvls, lvls[1:]):
            ra, rb = ctx.impl_exhaustive[(tuple(pre), a)], ctx.impl_exhaustive[(tuple(pre), b)]
            for idx, (x, y) in enumerate(zip(ra, rb)):
                n_cum += 1
                bad = (x >= tagE) != (y >= tagE) or (x < tagE and (x & ~y))
                if bad and reported < 8:
                    l = fold_assigns(rest)[idx]
                    args_lo, args_hi = cmdline(impl, a, pre + l), cmdline(impl, b, pre + l)
                    why = cumulative_failure(impl, impl.run(args_lo), impl.run(args_hi))
                    key = "levels-cumulative:%s" % show(args_lo)
                    if key not in seen:
                        seen.add(key)
                        viol(ctx, key, "`nmfu %s` vs -O%d: %s" % (show(args_lo), b, why),
                                      {"broken": broken, "clause": "levels-cumulative", "command_line": args_lo, "command_line_higher": args_hi})
                        reported += 1
    ctx.coverage["cumulative_pairs_checked"] = n_cum
    # order independence: sampled permutations of sampled assignments, against the canonical order
    rng = ctx.rng
    n_perm = 0
    all_rest = fold_assigns(rest)
    for _ in range(4000 if ctx.tier == "quick" else 60000):
        pre = rng.choice(prefixes)
        l = pre + rng.choice(all_rest)
        if len(l) < 2:
            continue
        lv = rng.choice(impl.levels)
        p = list(l)
        rng.shuffle(p)
        o1, o2 = impl.run(cmdline(impl, lv, l)), impl.run(cmdline(impl, lv, p))
        n_perm += 1
        if not same_outcome(o1, o2) and reported < 10:
            def differs(a):
                lvl, ovs = parse_simple(impl, a)
                if ovs is None or len(ovs) < 2:
                    return False
                return not same_outcome(impl.run(a), impl.run(cmdline(impl, lvl, sorted(ovs, key=lambda kv: impl.ids.index(kv[0])))))
            small = shrink(cmdline(impl, lv, p), differs) if differs(cmdline(impl, lv, p)) else cmdline(impl, lv, p)
            lvl, ovs = parse_simple(impl, small)
            canon = cmdline(impl, lvl, sorted(ovs, key=lambda kv: impl.ids.index(kv[0])))
            oa, ob = impl.run(small), impl.run(canon)
            key = "order-dependent:%s" % show(small)
            if key not in seen:
                seen.add(key)
                viol(ctx, key, "the configuration depends on flag order: `nmfu %s` gives %s but `nmfu %s` gives %s"
                              % (show(small), impl.on_names(oa) if oa[0] == "ok" else oa[:2], show(canon), impl.on_names(ob) if ob[0] == "ok" else ob[:2]),
                              {"broken": broken, "clause": "order-independent", "command_line": small, "command_line_reordered": canon,
                               "observed": repr(oa), "observed_reordered": repr(ob)})
                reported += 1
    ctx.coverage["impl_permutation_pairs_sampled"] = n_perm
    # ... and EVERY ordering of every assignment of up to kmax related flags, against the canonical order
    kmax = 3 if ctx.tier == "quick" else 4
    n_all = 0
    canon_cache = {}
    for k in range(2, kmax + 1):
        for fs in itertools.permutations(rel, k):
            srt = tuple(sorted(fs, key=impl.ids.index))
            for vals in itertools.product((True, False), repeat=k):
                ovs = list(zip(fs, vals))
                cv = tuple(sorted(ovs, key=lambda kv: impl.ids.index(kv[0])))
                for lv in (impl.levels if ctx.tier != "quick" or k < 3 else impl.levels[1:2]):
                    ck = (cv, lv)
                    if ck not in canon_cache:
                        canon_cache[ck] = impl.run(cmdline(impl, lv, list(cv)))
                    if tuple(ovs) == cv:
                        continue
                    o = impl.run(cmdline(impl, lv, ovs))
                    n_all += 1
                    if not same_outcome(o, canon_cache[ck]):
                        a1, a2 = cmdline(impl, lv, ovs), cmdline(impl, lv, list(cv))
                        viol(ctx, "order-dependent:%s" % show(a1),
                             "the configuration depends on flag order: `nmfu %s` gives %s but `nmfu %s` gives %s"
                             % (show(a1), impl.on_names(o) if o[0] == "ok" else o[:2], show(a2),
                                impl.on_names(canon_cache[ck]) if canon_cache[ck][0] == "ok" else canon_cache[ck][:2]),
                             {"broken": broken, "clause": "order-independent", "command_line": a1, "command_line_reordered": a2,
                              "observed": repr(o), "observed_reordered": repr(canon_cache[ck])})
                        reported += 1
    ctx.coverage["impl_all_orderings_up_to_%d_flags" % kmax] = n_all
    return reported > 0


def parse_simple(impl, args):
    """(level, ovs) of a command line made only of -O<n>, -f..., -fno-..., --flag n=v and the input; else (None, None)"""
    level, ovs = None, []
    it = iter(args)
    for a in it:
        if a == INPUT:
            continue
        if re.fullmatch(r"-O-?\d+", a):
            level = int(a[2:])
        elif a.startswith("-f"):
            n = a[2:]
            v = True
            if n.startswith("no-"):
                n, v = n[3:], False
            n = n.upper().replace("-", "_")
            if n not in impl.id_of_name:
                return None, None
            ovs.append((impl.id_of_name[n], v))
        elif a == "--flag":
            try:
                x = next(it)
            except StopIteration:
                return None, None
            n, _, val = x.partition("=")
            v = (val in ("yes", "on")) if "=" in x else True
            n = n.upper().replace("-", "_")
            if n not in impl.id_of_name:
                return None, None
            ovs.append((impl.id_of_name[n], v))
        else:
            return None, None
    return (1 if level is None else level), ovs


def correspondence(ctx, impl):
    t0 = time.time()
    cases = gen_cases(ctx, impl)
    outs = [impl.run(c["args"]) for c in cases]
    kinds = {}
    nontrivial = set()
    default = impl.run([INPUT])
    # --- clauses on the implementation for every generated well-formed case, malformed handling --------------
    reported = set()
    n_malformed_ok = 0
    for c, o in zip(cases, outs):
        kinds[c["kind"]] = kinds.get(c["kind"], 0) + 1
        if o != default:
            nontrivial.add(repr(o[:2]))
        if c["kind"] in ("malformed", "malformed-long"):
            if o[0] == "error":
                n_malformed_ok += 1
            else:
                hit = False
                for e in c["mal"]:
                    hit = report_malformed(ctx, impl, e, found_in=c["args"]) or hit
                if not hit:      # every malformed element is diagnosed alone, but not this combination
                    key = "malformed-not-diagnosed:%s" % show(c["args"])
                    viol(ctx, key, "malformed command line `nmfu %s` is not reported as an error: %r" % (show(c["args"]), o[:3]),
                         {"broken": "unknown/malformed options must be reported as errors", "command_line": c["args"], "observed": repr(o)})
        elif c["ovs"] is not None and c["kind"] != "plain":
            for cl, detail in clause_failures(impl, c["level"] if c["level"] is not None else 1, c["ovs"], o):
                if len(reported) >= 12:
                    break
                def still(a, cl=cl):
                    lvl, ovs = parse_simple(impl, a)
                    return ovs is not None and any(x == cl for x, _ in clause_failures(impl, lvl, ovs, impl.run(a)))
                small = shrink(c["args"], still) if still(c["args"]) else c["args"]
                key = "%s:%s" % (cl, show(small))
                if key not in reported:
                    reported.add(key)
                    lvl, ovs = parse_simple(impl, small)
                    o2 = impl.run(small)
                    det = [d for x, d in clause_failures(impl, lvl, ovs, o2) if x == cl] if ovs is not None else []
                    viol(ctx, key, "`nmfu %s`: %s" % (show(small), det[0] if det else detail),
                         {"broken": "direct evaluation", "clause": cl, "command_line": small, "found_in": c["args"], "observed": repr(o2)})
    lenient = [(c["args"], o) for c, o in zip(cases, outs) if c["kind"] == "lenient"]
    ctx.coverage["lenient_arguments_observed"] = [{"args": show(a), "outcome": (o[0] if o[0] != "ok" else "accepted: " + ",".join(impl.on_names(o)))} for a, o in lenient][:30]
    # --- the model on the same command lines, inside Coq ------------------------------------------------------
    printable = [(c, o) for c, o in zip(cases, outs) if all(all(32 <= ord(ch) < 127 for ch in a) for a in c["args"])]
    SH = 300
    shards = [printable[k:k + SH] for k in range(0, len(printable), SH)]
    paths = []
    for si, shard in enumerate(shards):
        p = os.path.join(WORK, "cases_c19_%03d.v" % si)
        write_case_file(p, [(c["args"], impl.digest(o)) for c, o in shard])
        paths.append(p)
    with ThreadPoolExecutor(max_workers=common.NCPU) as ex:
        results = list(ex.map(lambda p_: common.coqc_file(p_, timeout=900), paths))
    mismatches = []
    for shard, (rc, out) in zip(shards, results):
        m = re.search(r"=\s*(\[[^\]]*\]|nil)\s*:\s*list nat", out.replace("\n", " "))
        if rc != 0 or not m:
            viol(ctx, "correspondence-build", "a correspondence shard does not compile", {"broken": "correspondence FlagsModel-vs-load_commandline_flags", "output": out[-3000:]}, found_input=False)
            continue
        for b in [int(x) for x in re.findall(r"\d+", m.group(1))]:
            mismatches.append(shard[b])
    ctx.coverage["evaluations"] = len(printable) + ctx.coverage.get("impl_exhaustive_cmdlines", 0)
    ctx.coverage["cmdline_cases_compared_in_coq"] = len(printable)
    ctx.coverage["cmdline_case_kinds"] = kinds
    ctx.coverage["distinct_nontrivial"] = len(nontrivial)
    ctx.coverage["malformed_cases_diagnosed"] = n_malformed_ok
    ctx.coverage["cmdline_mismatches"] = len(mismatches)
    # shrink and report mismatches (a few)
    seen = set()
    mismatches.sort(key=lambda co: (len(co[0]["args"]), sum(len(a) for a in co[0]["args"])))
    todo = []
    for c, o in mismatches[:3]:
        todo.append(c["args"])
    if todo:
        mds = model_digests(todo)
        for (c, o), md in zip(mismatches[:3], mds):
            args = c["args"]
            key = "model-mismatch:%s" % show(args)
            if key in seen:
                continue
            seen.add(key)
            viol(ctx, key, "`nmfu %s`: implementation gives %s, the model of load_commandline_flags gives %s"
                          % (show(args), describe_digest(impl, impl.digest(o)), describe_digest(impl, md)),
                          {"broken": "correspondence FlagsModel.run_cmdline vs ProgramData.load_commandline_flags", "command_line": args,
                           "implementation": repr(o), "implementation_digest": impl.digest(o), "model_digest": md})
    # --- exhaustive: model vs implementation on 3^k x levels -------------------------------------------------
    t1 = time.time()
    if max(impl.ids) >= 1000 or len(impl.ids) < 20:
        ctx.notes.append("packed comparison not applicable to this table shape (ids >= 1000 or < 20 flags): exhaustive model comparison skipped")
        mres = {}
    else:
        mres, eout = exhaustive_model(ctx, impl)
    if mres is None:
        viol(ctx, "exhaustive-build", "the exhaustive model evaluation (extraction) does not build", {"broken": "correspondence (exhaustive)", "output": eout[-3000:]}, found_input=False)
    elif mres:
        n_cmp, n_bad = 0, 0
        all_rest = fold_assigns(ctx.impl_rest)
        for si, pre in enumerate(ctx.impl_prefixes):
            for lv in impl.levels:
                mv = mres.get((si, lv))
                iv = ctx.impl_exhaustive[(tuple(pre), lv)]
                if mv is None or len(mv) != len(iv):
                    viol(ctx, "exhaustive-shape", "exhaustive model output for shard %d level %d has %s results, implementation %d" % (si, lv, None if mv is None else len(mv), len(iv)),
                         {"broken": "correspondence (exhaustive)"}, found_input=False)
                    continue
                for idx, (a, b) in enumerate(zip(mv, iv)):
                    n_cmp += 1
                    if a != b:
                        n_bad += 1
                        if n_bad <= 4:
                            args = cmdline(impl, lv, pre + all_rest[idx])
                            o = impl.run(args)
                            viol(ctx, "model-mismatch:%s" % show(args),
                                 "`nmfu %s`: implementation gives %s, the model of load_commandline_flags gives packed result %d (implementation: %d)"
                                 % (show(args), describe_digest(impl, impl.digest(o)), a, b),
                                 {"broken": "correspondence (exhaustive) FlagsModel.resolve vs load_commandline_flags", "command_line": args,
                                  "implementation": repr(o), "model_packed": a, "implementation_packed": b})
        ctx.coverage["exhaustive_model_vs_impl_compared"] = n_cmp
        ctx.coverage["exhaustive_model_vs_impl_mismatches"] = n_bad
        spot = kernel_spot_check(ctx, impl, mres, ctx.impl_prefixes, all_rest)
        if spot is None or spot:
            viol(ctx, "extraction-vs-kernel", "extracted model and kernel evaluation disagree (or the spot check did not run): %r" % (spot,),
                 {"broken": "extraction used for the exhaustive comparison", "detail": repr(spot)}, found_input=False)
        else:
            ctx.coverage["extraction_spot_checked_by_kernel"] = 24
        ctx.trusted.append("Coq extraction (ExtrOcamlBasic only) + OCaml, for the exhaustive 3^k x levels model-vs-implementation comparison only "
                           "(a sample is re-evaluated by the kernel's VM each run; the sampled command lines are evaluated by the kernel only)")
    ctx.coverage["exhaustive_model_s"] = round(time.time() - t1, 1)
    ctx.coverage["correspondence_s"] = round(time.time() - t0, 1)
    # samples
    for c, o in list(zip(cases, outs))[40:4000:700]:
        ctx.samples.append({"command_line": show(c["args"]), "implementation": (impl.on_names(o) if o[0] == "ok" else list(o[:3])), "kind": c["kind"]})


def replay(ctx, path):
    """re-run exactly the recorded command line on the current tree and print expected / observed"""
    rec = json.load(open(path))
    args = rec.get("command_line")
    if args is None:
        print("replay: %s records no command line (%s)" % (path, rec.get("what")))
        return 2
    impl = Impl()
    o = impl.run(args)
    print("command line : nmfu %s" % show(args))
    print("recorded     : %s" % rec.get("what"))
    print("observed now : %s" % (("ok, on = %s" % impl.on_names(o)) if o[0] == "ok" else repr(o)))
    failing = False
    key = rec.get("key", "")
    cat = key.split(":")[0]
    if cat in ("malformed-crash", "malformed-accepted", "malformed-not-diagnosed"):
        failing = o[0] != "error"
        print("expected     : RuntimeError (diagnosed)")
    elif cat == "model-mismatch":
        os.makedirs(WORK, exist_ok=True)
        md = model_digests([args])[0]
        print("model        : %s" % describe_digest(impl, md))
        failing = md != impl.digest(o)
    elif cat == "order-dependent":
        o2 = impl.run(rec["command_line_reordered"])
        print("reordered    : nmfu %s -> %s" % (show(rec["command_line_reordered"]), ("ok, on = %s" % impl.on_names(o2)) if o2[0] == "ok" else repr(o2)))
        failing = not same_outcome(o, o2)
    elif cat == "levels-cumulative":
        o2 = impl.run(rec["command_line_higher"])
        failing = cumulative_failure(impl, o, o2) is not None
        print("higher level : nmfu %s -> %s" % (show(rec["command_line_higher"]), cumulative_failure(impl, o, o2)))
    else:
        lvl, ovs = parse_simple(impl, args)
        if ovs is not None:
            fl = clause_failures(impl, lvl, ovs, o)
            print("clauses      : %s" % (fl or "all hold"))
            failing = any(c == cat for c, _ in fl)
    print("still failing: %s" % failing)
    return 1 if failing else 0
