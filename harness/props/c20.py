"""C20 - compilation is a pure function of source and options.

Partial proof + translation validation: the Gallina models are functions, so the content is that the
real compiler's result does not depend on process history, heap layout or hash seeds.  Each program is
compiled (a) alone in a fresh process, (b) after other programs in one process, (c) twice in one process,
(d) under different PYTHONHASHSEEDs and heap perturbations; verdicts must agree and every resulting
machine must carry a STRICT bisimulation certificate against the reference compilation
(Bisim.dfa_equiv_cert: equal behaviour on all inputs under every data semantics), so each comparison is a
theorem about all inputs, not a sample of runs.
"""
import os, sys, json, random, subprocess, collections
import common, nm, export, gen, mach

LEVEL = "translation_validation"
WORKER = os.path.join(os.path.dirname(os.path.dirname(os.path.abspath(__file__))), "c20_worker.py")


def run_worker(jobs, hashseed, junk=0):
    env = dict(os.environ, PYTHONHASHSEED=str(hashseed), NMFU_VERIF="1", VERIF_JUNK=str(junk),
               PYTHONPATH=os.environ.get("NMFU_REPO", "/repo") + ":" + os.path.dirname(WORKER))
    p = subprocess.run([common.PY, WORKER], input=json.dumps(jobs), capture_output=True, text=True, env=env, timeout=900)
    if p.returncode != 0:
        return None, p.stderr[-500:]
    return json.loads(p.stdout), None


def run(ctx):
    err = mach.ensure_machk()
    if err:
        ctx.violation("build", "extracted tools do not build: " + err[:200], {"broken": "extraction"}, found_input=False)
        return
    quick = ctx.tier == "quick"
    from props import c02 as _c02
    _c02.proofs(ctx, "C20.v", deps=("Machine/CallEquiv.vo",))   # property theorems: build + Print Assumptions audit
    rng = ctx.rng
    progs = [(n, s, f) for n, s, f in nm.corpus() if quick is False or n not in ("gtfs-realtime", "ttc_rdf")]
    for i in range(30 if quick else 400):
        ast, src = gen.gen_program(random.Random(rng.getrandbits(48)), gen.Profile(max_stmts=4))
        progs.append(("gen%d" % i, src, []))
    for i in range(15 if quick else 200):
        ast, src = gen.gen_greedy_program(random.Random(rng.getrandbits(48)))
        progs.append(("greedy%d" % i, src, []))
    for i in range(10 if quick else 100):
        a, b, d = gen.gen_macro_program(random.Random(rng.getrandbits(48)))
        progs.append(("macro%d" % i, a, ["-fyield-support"] if d["yield"] else []))
    # constructions that iterate over sets of identity-hashed objects: waits on regexes (several rejecting transitions are
    # re-pointed), case programs, and near-ambiguous joins whose accept / reject verdict must not depend on the iteration order
    for i in range(25 if quick else 300):
        p_, s_, f_ = gen.gen_wait_program(random.Random(rng.getrandbits(48)))
        progs.append(("wait%d" % i, s_, f_))
    for i in range(15 if quick else 200):
        p_, s_, f_ = gen.gen_case_program(random.Random(rng.getrandbits(48)))
        progs.append(("case%d" % i, s_, f_))
    for i in range(40 if quick else 400):
        p_, s_, t_ = gen.gen_ambig_candidate(random.Random(rng.getrandbits(48)))
        progs.append(("amb%d" % i, s_, []))
    # big regex automata (deep recursion in the regex code) next to the small programs
    progs.append(("bigregex0", 'parser { /x{400}/; "y"; }', []))
    progs.append(("bigregex1", 'out str[8] s; parser { s += /[a-f]{150}(ab|cd)*/; ";"; }', []))
    jobs = [{"name": n, "src": s, "flags": [rng.choice(["-O1", "-O3"])] + [f for f in fl if not f.startswith("-O")]} for n, s, fl in progs]
    # (a) reference: each program alone in a fresh process would cost ~0.4 s each; a fresh process per GROUP of 1 is used for a
    #     sample, the others are compiled in a fresh process in their own order
    runs = {}
    order_a = list(range(len(jobs)))
    singles = rng.sample(order_a, min(len(jobs), 12 if quick else 60))
    from concurrent.futures import ThreadPoolExecutor
    def single(i):
        return i, run_worker([jobs[i]], 0)
    with ThreadPoolExecutor(max_workers=common.NCPU) as ex:
        single_res = dict(ex.map(single, singles))
    configs = [("in-order seed0", order_a, 0, 0), ("reversed seed1", list(reversed(order_a)), 1, 1000),
               ("shuffled seed12345", rng.sample(order_a, len(order_a)), 12345, 50000), ("each twice seed7", [i for i in order_a for _ in (0, 1)], 7, 7)]
    def cfg_run(c):
        name, order, seed, junk = c
        return name, order, run_worker([jobs[i] for i in order], seed, junk)
    with ThreadPoolExecutor(max_workers=4) as ex:
        cfg_res = list(ex.map(cfg_run, configs))
    shared = {"prims": {}, "tests": {}}
    leaked = set()
    per_prog = collections.defaultdict(list)     # index -> [(config, verdict, machine)]
    for i, (res, e) in single_res.items():
        if res is None:
            ctx.violation("worker-crash:single", "compilation worker crashed: " + str(e)[:200], {"program": jobs[i]["src"]}, found_input=False)
            continue
        r = res[0]
        per_prog[i].append(("alone, fresh process", r["verdict"], export.remap_ids(r["machine"], r["prims"], r["tests"], shared) if r["machine"] else None, r["message"]))
    for name, order, (res, e) in cfg_res:
        if res is None:
            ctx.violation("worker-crash:" + name, "compilation worker crashed: " + str(e)[:200], {}, found_input=False)
            continue
        for i, r in zip(order, res):
            per_prog[i].append((name, r["verdict"], export.remap_ids(r["machine"], r["prims"], r["tests"], shared) if r["machine"] else None, r["message"]))
            if r.get("interp_changed") and ("interp", i) not in leaked:
                # a compilation that leaves interpreter-wide settings changed makes every later compilation in the process depend on it
                leaked.add(("interp", i))
                ctx.violation("interpreter-state:%s:%s" % (jobs[i]["name"].rstrip("0123456789"), "+".join(sorted(r["interp_changed"]))),
                              "compiling this program leaves interpreter-wide state changed (%s): what later compilations in the same process do then depends on it" % json.dumps(r["interp_changed"])[:200],
                              {"program": jobs[i]["src"], "flags": jobs[i]["flags"], "history": name, "changed": r["interp_changed"]})
    tasks, meta = [], []
    nverd = 0
    for i, lst in per_prog.items():
        ref = lst[0]
        for other in lst[1:]:
            if other[1] != ref[1]:
                nverd += 1
                ctx.violation("verdict:%s:%s:%s/%s" % (jobs[i]["name"] if not jobs[i]["name"].startswith(("gen", "greedy", "macro")) else jobs[i]["name"].rstrip("0123456789"), other[0], ref[1], other[1]),
                              "the same program and options are %s when compiled %s but %s when compiled %s" % (ref[1], ref[0], other[1], other[0]),
                              {"program": jobs[i]["src"], "flags": jobs[i]["flags"], "history_a": ref[0], "history_b": other[0], "message_a": ref[3], "message_b": other[3]})
            elif ref[1] == "ok":
                tasks.append(mach.task_bisim(ref[2], other[2])); meta.append((i, ref[0], other[0]))
    results = mach.run_machk(tasks)
    nbad = 0
    seen = set()
    for (i, ha, hb), res in zip(meta, results):
        if res != "ok" and i not in seen:
            seen.add(i); nbad += 1
            parts = res.split()
            inp = None
            if parts[0] == "mismatch":
                from props.c05 import path_from_parents
                inp = path_from_parents(parts[4:], int(parts[1]), int(parts[2])) + [int(parts[3])]
            kind = jobs[i]["name"].rstrip("0123456789")
            ctx.violation("behaviour:%s:%s" % (kind, jobs[i]["name"]), "two compilations of the same program and options (%s / %s) give machines that are not bisimilar (%s): after input %r" % (ha, hb, res[:40], inp),
                          {"program": jobs[i]["src"], "flags": jobs[i]["flags"], "history_a": ha, "history_b": hb, "input": inp, "broken": "certificate Bisim.dfa_equiv_cert"}, found_input=inp is not None)
    ctx.coverage.update({
        "programs": len(jobs), "disagreements_checked": nbad + nverd, "compilations": sum(len(v) for v in per_prog.values()), "machine_pairs_certified": len(tasks),
        "histories": ["alone in a fresh process (sample of %d)" % len(singles)] + [c[0] for c in configs],
        "checker_cmd": "fresh /venv/bin/python processes with chosen PYTHONHASHSEED + ocaml/machk bisim",
    })
    ctx.samples += [{"program": jobs[i]["name"], "histories": [x[0] for x in lst], "verdicts": [x[1] for x in lst]} for i, lst in list(per_prog.items())[:6]]
    ctx.trusted += ["exporter and Machine/Sem.v (as for C05)", "CPython as the carrier of the process state the property quantifies over"]
    ctx.assumptions += ["partial: the quantifier over prior compilations / allocation layouts / hash seeds is sampled (4 process histories + fresh processes); each comparison of two resulting machines is a theorem over all inputs"]
