"""Generator ASTs (harness/gen.py) -> terms of coq/Ref/Lang.v, for the extracted checker ocaml/refk and for
in-Coq certificates.  The statement tree comes from the generator (the source text is printed from the same
tree), never from the compiler's front end; only the NAMES of data actions and conditions (interned ids) are
obtained from the compiler, by compiling an auxiliary program whose start actions are exactly the distinct
action statements and conditions of the program (C14 covers what those expressions mean)."""
import os, subprocess
from concurrent.futures import ThreadPoolExecutor
import common, nm, export, gen, mach
from common import VERIF, COQ, sh

REFK = os.path.join(VERIF, "ocaml", "refk")
ALL_BYTES = (1 << 256) - 1
END_BIT = 1 << 256


# ---------------------------------------------------------------------------
# build of the extracted checker
# ---------------------------------------------------------------------------
def ensure_refk():
    srcs = [os.path.join(COQ, "Extract", "ExtractRef.v"), os.path.join(VERIF, "ocaml", "refk.ml")] + \
           [os.path.join(COQ, "Ref", f) for f in ("Lang.v", "RefSem.v", "RefCert.v")] + \
           [os.path.join(COQ, "Machine", f) for f in ("Dfa.v", "Sem.v", "BBisim.v", "BSearch.v")] + [os.path.join(COQ, "Regex", "Re.v")]
    fresh = lambda: os.path.exists(REFK) and all(os.path.getmtime(REFK) >= os.path.getmtime(s) for s in srcs)
    if fresh():
        return None
    with common.Lock("ocamlref"):
        if fresh():
            return None
        rc, out = common.coq_make(["Ref/RefCert.vo"])
        if rc != 0:
            return "coq build failed: " + out[-1500:]
        g = os.path.join(VERIF, "ocaml", "genref")
        os.makedirs(g, exist_ok=True)
        rc, out = sh(["coqc", "-Q", COQ, "NV", os.path.join(COQ, "Extract", "ExtractRef.v")], cwd=g, timeout=600)
        if rc != 0:
            return "extraction failed: " + out[-1500:]
        import shutil
        shutil.copy(os.path.join(VERIF, "ocaml", "refk.ml"), g)
        rc, out = sh("ocamlfind ocamlopt -O3 -package str refmachine.mli refmachine.ml refk.ml -o ../refk.new && mv ../refk.new ../refk", cwd=g, timeout=600)
        if rc != 0:
            return "ocaml build failed: " + out[-1500:]
    return None


def run_refk(tasks, timeout=3000):
    if not tasks:
        return []
    n = common.NCPU
    chunk = max(1, (len(tasks) + n - 1) // n)
    parts = [tasks[i:i + chunk] for i in range(0, len(tasks), chunk)]

    def one(part):
        out = []
        # one process per task so that a crash / timeout is attributed to one program
        for t in part:
            try:
                p = subprocess.run(["bash", "-c", "ulimit -s unlimited 2>/dev/null; exec " + REFK], input=t + "\n", capture_output=True, text=True, timeout=timeout)
                lines = p.stdout.splitlines()
                out.append(lines[0] if lines else "crash " + p.stderr[-200:].replace("\n", " "))
            except subprocess.TimeoutExpired:
                out.append("timeout")
        return out

    with ThreadPoolExecutor(max_workers=n) as ex:
        res = list(ex.map(one, parts))
    return [l for part in res for l in part]


# ---------------------------------------------------------------------------
# patterns -> core regular expressions  ('e',) ('v',) ('c', bitset) ('s', a, b) ('a', a, b) ('k', a)
# ---------------------------------------------------------------------------
def seq_of(rs):
    rs = list(rs)
    if not rs:
        return ("e",)
    acc = rs[-1]
    for r in reversed(rs[:-1]):
        acc = ("s", r, acc)
    return acc


def alt_of(rs):
    rs = list(rs)
    if not rs:
        return ("v",)
    acc = rs[-1]
    for r in reversed(rs[:-1]):
        acc = ("a", r, acc)
    return acc


def bits(bs):
    m = 0
    for b in bs:
        m |= 1 << b
    return m


def re_of_regex(R):
    k = R[0]
    if k == "c":
        return ("c", 1 << R[1])
    if k == "cls":
        return ("c", bits(gen.CLASSES[R[1]]))
    if k == "set":
        m = 0
        for lo, hi in R[1]:
            for b in range(lo, hi + 1):
                m |= 1 << b
        if R[2]:
            m = ALL_BYTES & ~m
        return ("c", m)
    if k == "any":
        return ("c", ALL_BYTES)
    if k == "seq":
        return seq_of(re_of_regex(x) for x in R[1])
    if k == "alt":
        return alt_of(re_of_regex(x) for x in R[1])
    if k == "star":
        return ("k", re_of_regex(R[1]))
    if k == "plus":
        r = re_of_regex(R[1])
        return ("s", r, ("k", r))
    if k == "opt":
        return ("a", ("e",), re_of_regex(R[1]))
    if k == "rep":
        r = re_of_regex(R[1])
        n, m = R[2], R[3]
        if m is None:
            return seq_of([r] * n + [("k", r)])
        tail = ("e",)
        for _ in range(m - n):
            tail = ("a", ("e",), ("s", r, tail) if tail != ("e",) else r)
        return seq_of([r] * n + ([tail] if m > n else []))
    raise ValueError(R)


def swapcase(b):
    c = chr(b)
    return ord(c.swapcase()) if c.isascii() and c.isalpha() else b


def re_of_pattern(p):
    k = p[0]
    if k in ("lit", "bin"):
        return seq_of(("c", 1 << b) for b in p[1])
    if k == "casei":
        return seq_of(("c", (1 << b) | (1 << swapcase(b))) for b in p[1])
    if k in ("re", "bre"):
        return re_of_regex(p[1])
    if k == "end":
        return ("c", END_BIT)
    if k == "concat":
        return seq_of(re_of_pattern(x) for x in p[1])
    raise ValueError(p)


def re_text(r):
    k = r[0]
    if k in ("e", "v"):
        return k
    if k == "c":
        return "c %x" % r[1]
    if k == "k":
        return "k " + re_text(r[1])
    return "%s %s %s" % (k, re_text(r[1]), re_text(r[2]))


def re_coq(r):
    k = r[0]
    if k == "e": return "Eps"
    if k == "v": return "Void"
    if k == "c": return "(Cls %d%%N)" % r[1]
    if k == "k": return "(Star %s)" % re_coq(r[1])
    return "(%s %s %s)" % ("Seq" if k == "s" else "Alt", re_coq(r[1]), re_coq(r[2]))


# ---------------------------------------------------------------------------
# naming of actions and conditions through an auxiliary compilation
# ---------------------------------------------------------------------------
class Unsupported(Exception):
    pass


def decl_text(p):
    """the declarations of the program (printed by gen.pr_prog) without its parser body"""
    src = gen.pr_prog(p)
    i = src.index("parser {")
    return src[:i]


def collect_named(p):
    """distinct action statements (as generator tuples) and conditions whose ids must come from the compiler"""
    acts, conds = [], []
    def add(l, x):
        if x not in l:
            l.append(x)
    def go(stmts):
        for s in stmts:
            k = s[0]
            if k in ("assign", "appc"):
                add(acts, s)
            elif k in ("loop",):
                go(s[2])
            elif k == "case":
                for _, b in s[1]: go(b)
            elif k == "gcase":
                for _, _, b in s[1]: go(b)
            elif k == "optional":
                go(s[1])
            elif k == "try":
                go(s[1]); go(s[3])
            elif k == "foreach":
                go(s[1]); go(s[2])
            elif k == "if":
                for c, b in s[1]:
                    add(conds, c); go(b)
                if s[2]: go(s[2])
    go(p["body"])
    return acts, conds


def name_actions(p, flags, I):
    """{('act', stmt) / ('cond', expr): id} by compiling  parser { a1; a2; ... if c1 { finish; } ... "x"; }"""
    acts, conds = collect_named(p)
    names = {}
    if not acts and not conds:
        return names
    body = [gen.pr_stmt(a, 1) for a in acts] + ["    if %s { finish; }" % gen.pr_expr(c) for c in conds] + ['    "x";']
    src = decl_text(p) + "parser {\n" + "\n".join(body) + "\n}\n"
    r = nm.compile_source(src, [f for f in flags], interner=I, name="aux")
    if r["verdict"] != "ok":
        raise Unsupported("auxiliary naming program rejected: " + r["message"][:200])
    t = r["machines"]["post_convert"]["start_acts"]
    for a in acts:
        if a[0] == "assign":
            if t[0] != "prim":
                raise Unsupported("naming: expected prim")
            names[("act", a)] = t[1]; t = t[2]
        else:   # appc: test full / goto / prim
            if t[0] != "test" or t[3][0] != "prim":
                raise Unsupported("naming: expected append shape")
            names[("act", a)] = (t[1], t[3][1]); t = t[3][2]
    for c in conds:
        if t[0] == "test":
            names[("cond", c)] = t[1]; t = t[3]
        else:
            # a constant condition folds away: not nameable
            raise Unsupported("naming: condition folded by the compiler: " + gen.pr_expr(c))
    return names


class Conv:
    """one program -> Lang term (text for refk, Coq syntax for certificates)"""
    def __init__(self, p, m, I, names):
        self.p, self.m, self.I, self.names = p, m, I, names
        self.loops = []        # stack of (label, number)
        self.nloop = 0
        self.fcodes = list(m["finish_codes"])
        self.ycodes = list(m["yield_codes"])

    def pid(self, key, **info):
        return self.I.pid(key, dict(info))

    def full(self, var):
        return self.I.tid(("full", var), dict(kind="full", var=var, reads=[var], reads_last=False))

    def prog(self, stmts):
        out = []
        for s in stmts:
            out += self.stmt(s)
        return ("prog", out)

    def stmt(self, s):
        k = s[0]
        if k == "match":
            return [("M", re_of_pattern(s[1]), None)]
        if k == "append":
            var = s[1]
            p = self.pid(("append", var), kind="append", var=var, reads=[var], writes=[var], reads_last=True, strict=True)
            return [("M", re_of_pattern(s[2]), (self.full(var), p))]
        if k == "appc":
            t, p = self.names[("act", s)]
            return [("X", t, p)]
        if k == "assign":
            return [("A", self.names[("act", s)])]
        if k == "assigns":
            var, bs = s[1], tuple(s[2])
            return [("A", self.pid(("setstr", var, bs), kind="setstr", var=var, bytes=list(bs), reads=[], writes=[var], reads_last=False, strict=False))]
        if k == "delete":
            return [("A", self.pid(("delete", s[1]), kind="delete", var=s[1], reads=[], writes=[s[1]], reads_last=False, strict=False))]
        if k == "hook":
            return [("A", self.pid(("hook", s[1]), kind="hook", name=s[1], reads=["*"], writes=[], reads_last=False, hook=True, strict=True))]
        if k == "finish":
            return [("R", ("done",) if s[1] is None else ("finish", self.fcodes.index(s[1])))]
        if k == "yield":
            return [("R", ("yield", self.ycodes.index(s[1])))]
        if k == "break":
            if not self.loops:
                raise Unsupported("break outside loop")
            if s[1] is None:
                return [("B", self.loops[-1][1])]
            for lab, n in reversed(self.loops):
                if lab == s[1]:
                    return [("B", n)]
            raise Unsupported("unknown loop label")
        if k == "wait":
            return [("W", re_of_pattern(s[1]))]
        if k == "loop":
            self.nloop += 1
            n = self.nloop
            self.loops.append((s[1], n))
            b = self.prog(s[2])
            self.loops.pop()
            return [("L", n, b)]
        if k == "case":
            cls, els = [], None
            for pats, body in s[1]:
                b = self.prog(body)
                ps = [re_of_pattern(x) for x in pats if x != "else"]
                if "else" in pats:
                    els = b
                if ps:
                    cls.append((ps, b))
            return [("C", cls, els)]
        if k == "gcase":
            g = []
            for prio, pats, body in s[1]:
                b = self.prog(body)
                for x in pats:
                    g.append((prio or 0, re_of_pattern(x), b))
            return [("G", g)]
        if k == "optional":
            return [("O", self.prog(s[1]))]
        if k == "try":
            rs = s[2]
            nm_, os_ = (True, True) if rs is None else ("nomatch" in rs, "outofspace" in rs)
            return [("T", self.prog(s[1]), nm_, os_, self.prog(s[3]))]
        if k == "foreach":
            return [("F", self.prog(s[1]), self.prog(s[2]))]
        if k == "if":
            brs = [(self.names[("cond", c)], self.prog(b)) for c, b in s[1]]
            return [("I", brs, self.prog(s[2] or []))]
        raise Unsupported("statement " + k)


def res_text(r):
    return "D" if r[0] == "done" else ("F %d" % r[1] if r[0] == "finish" else "Y %d" % r[1])


def prog_text(pr):
    return "%d %s" % (len(pr[1]), " ".join(stmt_text(s) for s in pr[1])) if pr[1] else "0"


def stmt_text(s):
    k = s[0]
    if k == "A": return "A %d" % s[1]
    if k == "X": return "X %d %d" % (s[1], s[2])
    if k == "R": return "R " + res_text(s[1])
    if k == "B": return "B %d" % s[1]
    if k == "M": return "M %s %s" % (re_text(s[1]), "-" if s[2] is None else "+ %d %d" % s[2])
    if k == "W": return "W " + re_text(s[1])
    if k == "L": return "L %d %s" % (s[1], prog_text(s[2]))
    if k == "C":
        cl = " ".join("%d %s %s" % (len(ps), " ".join(re_text(x) for x in ps), prog_text(b)) for ps, b in s[1])
        return "C %d %s %s" % (len(s[1]), cl, "-" if s[2] is None else "+ " + prog_text(s[2]))
    if k == "G":
        return "G %d %s" % (len(s[1]), " ".join("%d %s %s" % (pr, re_text(x), prog_text(b)) for pr, x, b in s[1]))
    if k == "O": return "O " + prog_text(s[1])
    if k == "T": return "T %s %d %d %s" % (prog_text(s[1]), s[2], s[3], prog_text(s[4]))
    if k == "F": return "F %s %s" % (prog_text(s[1]), prog_text(s[2]))
    if k == "I":
        return "I %d %s %s" % (len(s[1]), " ".join("%d %s" % (c, prog_text(b)) for c, b in s[1]), prog_text(s[2]))
    raise ValueError(s)


def coq_res(r):
    return "RDone" if r[0] == "done" else ("(RFinish %d%%N)" % r[1] if r[0] == "finish" else "(RYield %d%%N)" % r[1])


def prog_coq(pr):
    return "[%s]" % "; ".join(stmt_coq(s) for s in pr[1])


def stmt_coq(s):
    k = s[0]
    if k == "A": return "SAct %d%%N" % s[1]
    if k == "X": return "SAppC %d%%N %d%%N" % (s[1], s[2])
    if k == "R": return "SRet " + coq_res(s[1])
    if k == "B": return "SBreak %d%%N" % s[1]
    if k == "M": return "SMatch %s %s" % (re_coq(s[1]), "None" if s[2] is None else "(Some (%d%%N, %d%%N))" % s[2])
    if k == "W": return "SWait " + re_coq(s[1])
    if k == "L": return "SLoop %d%%N %s" % (s[1], prog_coq(s[2]))
    if k == "C":
        return "SCase [%s] %s" % ("; ".join("Clause [%s] %s" % ("; ".join(re_coq(x) for x in ps), prog_coq(b)) for ps, b in s[1]),
                                  "None" if s[2] is None else "(Some %s)" % prog_coq(s[2]))
    if k == "G":
        return "SGCase [%s]" % "; ".join("GClause %d%%N %s %s" % (pr, re_coq(x), prog_coq(b)) for pr, x, b in s[1])
    if k == "O": return "SOptional " + prog_coq(s[1])
    if k == "T": return "STry %s %s %s %s" % (prog_coq(s[1]), "true" if s[2] else "false", "true" if s[3] else "false", prog_coq(s[4]))
    if k == "F": return "SForeach %s %s" % (prog_coq(s[1]), prog_coq(s[2]))
    if k == "I":
        return "SIf [%s] %s" % ("; ".join("IBranch %d%%N %s" % (c, prog_coq(b)) for c, b in s[1]), prog_coq(s[2]))
    raise ValueError(s)


# ---------------------------------------------------------------------------
# erasure of primitives (for the population with non-strict assignments: the relation then speaks about
# strict events, tests and results; values are compared dynamically)
# ---------------------------------------------------------------------------
def erase_atree(a, drop):
    k = a[0]
    if k == "prim":
        r = erase_atree(a[2], drop)
        return r if a[1] in drop else ["prim", a[1], r]
    if k == "test":
        return ["test", a[1], erase_atree(a[2], drop), erase_atree(a[3], drop)]
    return a


def erase_machine(m, drop):
    out = dict(m)
    out["start_acts"] = erase_atree(m["start_acts"], drop)
    sts = []
    for st in m["states"]:
        st = dict(st)
        if st["kind"] == "normal":
            st["trans"] = [dict(t, acts=erase_atree(t["acts"], drop)) for t in st["trans"]]
        elif st["kind"] == "cond":
            st["brs"] = [[c, dict(t, acts=erase_atree(t["acts"], drop))] for c, t in st["brs"]]
        sts.append(st)
    out["states"] = sts
    return out


def erase_prog(pr, drop):
    out = []
    for s in pr[1]:
        k = s[0]
        if k == "A":
            if s[1] not in drop:
                out.append(s)
        elif k == "L": out.append(("L", s[1], erase_prog(s[2], drop)))
        elif k == "C": out.append(("C", [(ps, erase_prog(b, drop)) for ps, b in s[1]], None if s[2] is None else erase_prog(s[2], drop)))
        elif k == "G": out.append(("G", [(pr_, x, erase_prog(b, drop)) for pr_, x, b in s[1]]))
        elif k == "O": out.append(("O", erase_prog(s[1], drop)))
        elif k == "T": out.append(("T", erase_prog(s[1], drop), s[2], s[3], erase_prog(s[4], drop)))
        elif k == "F": out.append(("F", erase_prog(s[1], drop), erase_prog(s[2], drop)))
        elif k == "I": out.append(("I", [(c, erase_prog(b, drop)) for c, b in s[1]], erase_prog(s[2], drop)))
        else: out.append(s)
    return ("prog", out)


def task_ref(pr, m, I, with_end):
    fp, ft = mach.free_ids(I)
    return "ref %d %s %d %s %s\n%s\n%s" % (len(fp), " ".join(map(str, fp)), len(ft), " ".join(map(str, ft)), "E" if with_end else "B",
                                           prog_text(pr), export.text_dfa(m))


def task_amb(pr, with_end=False):
    return "amb %s\n%s" % ("E" if with_end else "B", prog_text(pr))
