"""Surface regexes of the nmfu dialect for C07: the Python copy of coq/Regex/Surface.v's AST, its printers
(nmfu text form, nmfu binary form, Coq term), generators (exhaustive small + random larger), and an
independent derivative engine (mirror of coq/Regex/Re.v: same smart constructors, same term order) that
searches the product (derivative x machine state) for either a closed relation R - the certificate that
the verified checker Regex/ReCheck.re_dfa_check then validates - or a shortest distinguishing input.

Surface AST (tuples):
  ("chr", c) ("cls", k) ("set", items) ("nset", items) ("any",) ("grp", a) ("seq", a, b) ("alt", a, b)
  ("opt", a) ("star", a) ("plus", a) ("rep", n, a) ("range", n, m, a) ("atleast", n, a)
  items: ("c", c) ("r", lo, hi) ("k", k);   k in CLASSES
"""
import itertools, random

ALL = (1 << 256) - 1
CLASSES = ["w", "W", "d", "D", "s", "S", "n", "t", "r", " "]
COQ_CLASS = {"w": "CWord", "W": "CNotWord", "d": "CDigit", "D": "CNotDigit", "s": "CSpace", "S": "CNotSpace",
             "n": "CNewline", "t": "CTab", "r": "CReturn", " ": "CBlank"}


def _is_digit(b): return 48 <= b <= 57
def _is_word(b): return _is_digit(b) or 65 <= b <= 90 or 97 <= b <= 122 or b == 95
def _is_space(b): return b == 32 or 9 <= b <= 13


def class_has(k, b):
    if k == "w": return _is_word(b)
    if k == "W": return not _is_word(b)
    if k == "d": return _is_digit(b)
    if k == "D": return not _is_digit(b)
    if k == "s": return _is_space(b)
    if k == "S": return not _is_space(b)
    return b == {"n": 10, "t": 9, "r": 13, " ": 32}[k]


def set_of(p):
    m = 0
    for b in range(256):
        if p(b):
            m |= 1 << b
    return m


CLASS_SET = {k: set_of(lambda b, k=k: class_has(k, b)) for k in CLASSES}


def item_set(it):
    if it[0] == "c":
        return (1 << it[1]) if it[1] < 256 else 0
    if it[0] == "r":
        return set_of(lambda b: it[1] <= b <= it[2])
    return CLASS_SET[it[1]]


def items_set(items):
    m = 0
    for it in items:
        m |= item_set(it)
    return m


# ---------------------------------------------------------------------------
# core expressions: interned nodes, mirror of Regex/Re.v
# ---------------------------------------------------------------------------
class Node:
    __slots__ = ("tag", "a", "b", "s", "nullable", "void", "dcache", "uid")

    def __repr__(self):
        return coq_re(self)


_TABLE = {}
T_EPS, T_VOID, T_CLS, T_SEQ, T_ALT, T_STAR = 0, 1, 2, 3, 4, 5


def _mk(tag, a=None, b=None, s=None):
    key = (tag, id(a) if a is not None else 0, id(b) if b is not None else 0, s)
    n = _TABLE.get(key)
    if n is None:
        n = Node()
        n.tag, n.a, n.b, n.s = tag, a, b, s
        n.dcache = {}
        n.uid = len(_TABLE)
        if tag == T_EPS: n.nullable, n.void = True, False
        elif tag == T_VOID: n.nullable, n.void = False, True
        elif tag == T_CLS: n.nullable, n.void = False, s == 0
        elif tag == T_SEQ: n.nullable, n.void = a.nullable and b.nullable, a.void or b.void
        elif tag == T_ALT: n.nullable, n.void = a.nullable or b.nullable, a.void and b.void
        else: n.nullable, n.void = True, False
        _TABLE[key] = n
    return n


def reset_table():
    """drop the intern table (between batches, to bound memory); Eps/Void are re-created"""
    global Eps, Void
    _TABLE.clear()
    Eps, Void = _mk(T_EPS), _mk(T_VOID)


Eps, Void = _mk(T_EPS), _mk(T_VOID)
def Cls(s): return _mk(T_CLS, s=s)
def Seq(a, b): return _mk(T_SEQ, a, b)
def Alt(a, b): return _mk(T_ALT, a, b)
def Star(a): return _mk(T_STAR, a)


def re_cmp(a, b):
    """-1 / 0 / 1, the order of Re.re_cmp"""
    while True:
        if a is b:
            return 0
        if a.tag != b.tag:
            return -1 if a.tag < b.tag else 1
        t = a.tag
        if t == T_CLS:
            return -1 if a.s < b.s else (1 if a.s > b.s else 0)
        if t == T_STAR:
            a, b = a.a, b.a
            continue
        if t in (T_SEQ, T_ALT):
            c = re_cmp(a.a, b.a)
            if c != 0:
                return c
            a, b = a.b, b.b
            continue
        return 0


def seq_app(a, b):
    if a.tag == T_VOID: return Void
    if a.tag == T_EPS: return b
    if a.tag == T_SEQ: return Seq(a.a, seq_app(a.b, b))
    return Seq(a, b)


def mkSeq(a, b):
    if b.tag == T_VOID: return Void
    if b.tag == T_EPS: return a
    return seq_app(a, b)


def alt_ins(x, l):
    if l.tag == T_ALT:
        c = re_cmp(x, l.a)
        if c == 0: return l
        if c < 0: return Alt(x, l)
        return Alt(l.a, alt_ins(x, l.b))
    if l.tag == T_VOID:
        return x
    c = re_cmp(x, l)
    if c == 0: return l
    if c < 0: return Alt(x, l)
    return Alt(l, x)


def mkAlt(a, b):
    if a.tag == T_ALT: return alt_ins(a.a, mkAlt(a.b, b))
    if a.tag == T_VOID: return b
    return alt_ins(a, b)


def mkStar(a):
    if a.tag == T_STAR: return a
    if a.tag in (T_EPS, T_VOID): return Eps
    return Star(a)


def deriv(c, r):
    d = r.dcache.get(c)
    if d is not None:
        return d
    t = r.tag
    if t in (T_EPS, T_VOID): d = Void
    elif t == T_CLS: d = Eps if (r.s >> c) & 1 else Void
    elif t == T_SEQ:
        d = mkSeq(deriv(c, r.a), r.b)
        if r.a.nullable:
            d = mkAlt(d, deriv(c, r.b))
    elif t == T_ALT: d = mkAlt(deriv(c, r.a), deriv(c, r.b))
    else: d = mkSeq(deriv(c, r.a), mkStar(r.a))
    r.dcache[c] = d
    return d


def rep(n, r):
    out = Eps
    for _ in range(n):
        out = mkSeq(r, out)
    return out


def opt(r): return mkAlt(Eps, r)


def desugar(s):
    t = s[0]
    if t == "chr": return Cls((1 << s[1]) if s[1] < 256 else 0)
    if t == "cls": return Cls(CLASS_SET[s[1]])
    if t == "set": return Cls(items_set(s[1]))
    if t == "nset": return Cls(ALL & ~items_set(s[1]))
    if t == "any": return Cls(ALL)
    if t == "grp": return desugar(s[1])
    if t == "seq": return mkSeq(desugar(s[1]), desugar(s[2]))
    if t == "alt": return mkAlt(desugar(s[1]), desugar(s[2]))
    if t == "opt": return opt(desugar(s[1]))
    if t == "star": return mkStar(desugar(s[1]))
    if t == "plus":
        a = desugar(s[1]); return mkSeq(a, mkStar(a))
    if t == "rep": return rep(s[1], desugar(s[2]))
    if t == "range":
        if s[2] < s[1]: return Void
        a = desugar(s[3]); return mkSeq(rep(s[1], a), rep(s[2] - s[1], opt(a)))
    if t == "atleast":
        a = desugar(s[2]); return mkSeq(rep(s[1], a), mkStar(a))
    raise ValueError(s)


def class_sets(r, acc=None):
    """all byte sets occurring in r (the derivatives of r contain no others)"""
    acc = set() if acc is None else acc
    seen = set()
    st = [r]
    while st:
        x = st.pop()
        if id(x) in seen:
            continue
        seen.add(id(x))
        if x.tag == T_CLS:
            acc.add(x.s)
        if x.a is not None: st.append(x.a)
        if x.b is not None: st.append(x.b)
    return acc


def byte_classes(r):
    """partition of 0..255 into blocks of bytes no set of r distinguishes: list of lists"""
    sets = sorted(class_sets(r))
    sig = {}
    for b in range(256):
        k = tuple((s >> b) & 1 for s in sets)
        sig.setdefault(k, []).append(b)
    return list(sig.values())


def re_size(r):
    seen, st, n = set(), [r], 0
    while st:
        x = st.pop(); n += 1
        if x.a is not None: st.append(x.a)
        if x.b is not None: st.append(x.b)
        if n > 100000: break
    return n


# ---------------------------------------------------------------------------
# printers
# ---------------------------------------------------------------------------
TEXT_META = set(".*()[]\\+{}|/")     # the escapable characters of REGEX_UNIMPORTANT ("\\?" is not in the grammar: '?' is written [?])
SET_META = set("-]\\/")


class NotPrintable(Exception):
    pass


def text_char(c):
    if c == 32: return "\\ "
    if c == 10: return "\\n"
    if c == 9: return "\\t"
    if c == 13: return "\\r"
    ch = chr(c)
    if ch in TEXT_META: return "\\" + ch
    if 33 <= c <= 126 or 161 <= c <= 255: return ch
    raise NotPrintable(c)


def text_set_char(c):
    ch = chr(c)
    if c == 32: return "\\ "
    if c == 10: return "\\n"
    if c == 9: return "\\t"
    if c == 13: return "\\r"
    if ch in SET_META: return "\\" + ch
    if ch == "^": raise NotPrintable(c)
    if 33 <= c <= 126 or 161 <= c <= 255: return ch
    raise NotPrintable(c)


def text_set_range_end(c):
    ch = chr(c)
    if ch in SET_META: return "\\" + ch
    if ch == "^" or not (33 <= c <= 126 or 161 <= c <= 255): raise NotPrintable(c)
    return ch


def _items(items, binary):
    out = []
    for it in items:
        if it[0] == "c":
            out.append("%02x" % it[1] if binary else text_set_char(it[1]))
        elif it[0] == "r":
            out.append("%02x-%02x" % (it[1], it[2]) if binary else text_set_range_end(it[1]) + "-" + text_set_range_end(it[2]))
        else:
            if binary: raise NotPrintable(it)
            out.append("\\" + it[1])
    return (" " if binary else "").join(out)


LV_ALT, LV_SEQ, LV_ATOM = 0, 1, 2


def show(s, binary=False, lv=LV_ALT):
    """the nmfu spelling of a surface regex (without the delimiting slashes)"""
    t = s[0]
    sp = " " if binary else ""
    if t == "chr": return ("%02x" % s[1]) if binary else text_char(s[1])
    if t == "cls":
        if binary: raise NotPrintable(s)
        return "\\" + s[1]
    if t == "set": return "[" + _items(s[1], binary) + "]"
    if t == "nset": return "[^" + _items(s[1], binary) + "]"
    if t == "any": return "."
    if t == "grp": return "(" + show(s[1], binary, LV_ALT) + ")"
    if t == "seq":
        x = show(s[1], binary, LV_SEQ) + sp + show(s[2], binary, LV_SEQ)
        return x if lv <= LV_SEQ else "(" + x + ")"
    if t == "alt":
        x = show(s[1], binary, LV_ALT) + "|" + show(s[2], binary, LV_ALT)
        return x if lv <= LV_ALT else "(" + x + ")"
    if t in ("opt", "star", "plus"):
        return show(s[1], binary, LV_ATOM) + {"opt": "?", "star": "*", "plus": "+"}[t]
    if t == "rep": return show(s[2], binary, LV_ATOM) + "{%d}" % s[1]
    if t == "range": return show(s[3], binary, LV_ATOM) + "{%d,%d}" % (s[1], s[2])
    if t == "atleast": return show(s[2], binary, LV_ATOM) + "{%d,}" % s[1]
    raise ValueError(s)


def show_atom_ok(s):
    return s[0] in ("chr", "cls", "set", "nset", "any", "grp")


# postfix operators apply to a literal only: anything else is parenthesised by the printer
_show = show
def show(s, binary=False, lv=LV_ALT):  # noqa: F811
    if lv == LV_ATOM and not show_atom_ok(s):
        return "(" + _show(s, binary, LV_ALT) + ")"
    return _show(s, binary, lv)


def source(s, binary=False):
    return "parser { %s/%s/; }" % ("b" if binary else "", show(s, binary))


def coq_items(items):
    out = []
    for it in items:
        if it[0] == "c": out.append("IChr %d%%N" % it[1])
        elif it[0] == "r": out.append("IRange %d%%N %d%%N" % (it[1], it[2]))
        else: out.append("ICls %s" % COQ_CLASS[it[1]])
    return "[" + "; ".join(out) + "]"


def coq_surface(s):
    t = s[0]
    if t == "chr": return "(SChr %d%%N)" % s[1]
    if t == "cls": return "(SCls %s)" % COQ_CLASS[s[1]]
    if t == "set": return "(SSet %s)" % coq_items(s[1])
    if t == "nset": return "(SNSet %s)" % coq_items(s[1])
    if t == "any": return "SAny"
    if t == "grp": return "(SGrp %s)" % coq_surface(s[1])
    if t == "seq": return "(SSeq %s %s)" % (coq_surface(s[1]), coq_surface(s[2]))
    if t == "alt": return "(SAlt %s %s)" % (coq_surface(s[1]), coq_surface(s[2]))
    if t == "opt": return "(SOpt %s)" % coq_surface(s[1])
    if t == "star": return "(SStar %s)" % coq_surface(s[1])
    if t == "plus": return "(SPlus %s)" % coq_surface(s[1])
    if t == "rep": return "(SRep %d%%nat %s)" % (s[1], coq_surface(s[2]))
    if t == "range": return "(SRepRange %d%%nat %d%%nat %s)" % (s[1], s[2], coq_surface(s[3]))
    if t == "atleast": return "(SRepAtLeast %d%%nat %s)" % (s[1], coq_surface(s[2]))
    raise ValueError(s)


def coq_re(r):
    t = r.tag
    if t == T_EPS: return "Eps"
    if t == T_VOID: return "Void"
    if t == T_CLS: return "(Cls %d%%N)" % r.s
    if t == T_SEQ: return "(Seq %s %s)" % (coq_re(r.a), coq_re(r.b))
    if t == T_ALT: return "(Alt %s %s)" % (coq_re(r.a), coq_re(r.b))
    return "(Star %s)" % coq_re(r.a)


def coq_rel(R):
    return "[" + ";\n  ".join("(%s, %d%%nat)" % (coq_re(r), q) for r, q in R) + "]"


# ---- the token format read by the extracted checker (build/c07/rechk) ----------
def tok_items(items):
    out = ["%d" % len(items)]
    for it in items:
        if it[0] == "c": out.append("i %d" % it[1])
        elif it[0] == "r": out.append("j %d %d" % (it[1], it[2]))
        else: out.append("l %d" % CLASSES.index(it[1]))
    return " ".join(out)


def tok_surface(s):
    t = s[0]
    if t == "chr": return "c %d" % s[1]
    if t == "cls": return "k %d" % CLASSES.index(s[1])
    if t == "set": return "s " + tok_items(s[1])
    if t == "nset": return "n " + tok_items(s[1])
    if t == "any": return "a"
    if t == "grp": return "g " + tok_surface(s[1])
    if t == "seq": return "q %s %s" % (tok_surface(s[1]), tok_surface(s[2]))
    if t == "alt": return "o %s %s" % (tok_surface(s[1]), tok_surface(s[2]))
    if t == "opt": return "? " + tok_surface(s[1])
    if t == "star": return "* " + tok_surface(s[1])
    if t == "plus": return "+ " + tok_surface(s[1])
    if t == "rep": return "r %d %s" % (s[1], tok_surface(s[2]))
    if t == "range": return "R %d %d %s" % (s[1], s[2], tok_surface(s[3]))
    if t == "atleast": return "L %d %s" % (s[1], tok_surface(s[2]))
    raise ValueError(s)


def tok_re(r):
    t = r.tag
    if t == T_EPS: return "E"
    if t == T_VOID: return "V"
    if t == T_CLS: return "C %x" % r.s
    if t == T_SEQ: return "S %s %s" % (tok_re(r.a), tok_re(r.b))
    if t == T_ALT: return "A %s %s" % (tok_re(r.a), tok_re(r.b))
    return "K " + tok_re(r.a)


def tok_atree(a):
    k = a[0]
    if k == "end": return "e"
    if k == "prim": return "p %d %s" % (a[1], tok_atree(a[2]))
    if k == "test": return "t %d %s %s" % (a[1], tok_atree(a[2]), tok_atree(a[3]))
    if k == "ret":
        r = a[1]
        return "rd" if r[0] == "done" else ("rf %d" % r[1] if r[0] == "finish" else "ry %d" % r[1])
    if k == "goto": return "g %d" % (a[1] if a[1] is not None else 999999)
    if k == "break": return "b %d" % (a[1] if a[1] is not None else 999999)
    raise ValueError(a)


def tok_dfa(m):
    out = ["%d" % len(m["states"])]
    for st in m["states"]:
        if st["kind"] == "fail":
            out.append("F")
        elif st["kind"] == "normal":
            out.append("N %d" % len(st["trans"]))
            for t in st["trans"]:
                mask = 0
                for b in t["on"]:
                    mask |= 1 << b
                out.append("%x %d %d %d %d %s" % (mask, -1 if t["tgt"] is None else t["tgt"], t["fall"], t["err"], t["early"], tok_atree(t["acts"])))
        else:
            raise ValueError("condition state in a pure regex program")
    out.append("%d %d %s" % (m["start"], len(m["acc"]), " ".join(str(a) for a in m["acc"])))
    out.append("%d %d %s" % (m["strict_done"], m["end_check"], tok_atree(m["start_acts"])))
    return " ".join(out)


def tok_rel(R):
    return "%d " % len(R) + " ".join("%s %d" % (tok_re(r), q) for r, q in R)


# ---------------------------------------------------------------------------
# the exported machine: one step (mirror of Machine/Sem.step_tree for action-free machines)
# ---------------------------------------------------------------------------
END, ELSE = 256, 257


class MachineShape(Exception):
    pass


class Mach:
    """step tables of an exported machine: step[q][sym] = ("consume", q') | ("ret", code, q', adv)"""
    def __init__(self, m):
        self.m = m
        self.states = m["states"]
        self.acc = set(m["acc"])
        self.strict = m["strict_done"]
        self.start = m["start"]
        self.tables = {}
        self.on = {id(t): frozenset(t["on"]) for st in self.states if st["kind"] == "normal" for t in st["trans"]}

    def accepting(self, q):
        return q in self.acc

    def _select(self, ts, s):
        if s == END:
            for t in ts:
                if END in self.on[id(t)]:
                    return t
            for t in ts:
                if ELSE in self.on[id(t)]:
                    return t
            return None
        e = None
        for i, t in enumerate(ts):
            if ELSE in self.on[id(t)]:
                e = i
                break
        for i, t in enumerate(ts):
            if i == e:
                continue
            if s in self.on[id(t)]:
                return t
        return ts[e] if e is not None else None

    def _immediate_done(self, t):
        q = t["tgt"]
        if q is None or q not in self.acc or self.strict:
            return False
        st = self.states[q] if q < len(self.states) else None
        if st is None or st["kind"] == "fail":
            return True
        return all(x["err"] for x in st["trans"])

    def _nf(self, fuel, q, s):
        if fuel == 0:
            raise MachineShape("fall-through chain does not end (out of fuel) at state %d" % q)
        if q >= len(self.states) or self.states[q]["kind"] == "fail":
            return ("ret", "FAIL", q, False)
        st = self.states[q]
        if st["kind"] != "normal":
            raise MachineShape("condition state %d in a pure regex program" % q)
        t = self._select(st["trans"], s)
        src_ret = ("ret", "DONE" if q in self.acc else ("FAIL" if s == END else "OK"), q, False)
        if t is None:
            return src_ret
        if t["acts"] != ["end"] or t["early"]:
            raise MachineShape("transition with actions in a pure regex program (state %d)" % q)
        qc = t["tgt"] if t["tgt"] is not None else q
        if t["fall"]:
            return self._nf(fuel - 1, qc, s) if t["tgt"] is not None else src_ret
        if self._immediate_done(t):
            return ("ret", "DONE", qc, False)
        if s == END:
            return ("ret", "DONE" if q in self.acc else "FAIL", qc, False)
        return ("consume", qc) if t["tgt"] is not None else src_ret

    def step(self, q, s):
        tb = self.tables.get(q)
        if tb is None:
            tb = self.tables[q] = [self._nf(len(self.states) + 2, q, s2) for s2 in range(257)]
        return tb[s]

    def run(self, w):
        """feed_go on the whole input: (code, state, consumed)"""
        q = self.start
        for i, b in enumerate(w):
            r = self.step(q, b)
            if r[0] == "consume":
                q = r[1]
            else:
                return (r[1], r[2], i)
        return ("OK", q, len(w))


# ---------------------------------------------------------------------------
# product search: relation R or a shortest witness
# ---------------------------------------------------------------------------
class SearchLimit(Exception):
    pass


def product_search(r0, mach, limit=4000):
    """returns (R, None) when the relation closes with every check of ReCheck.check_pair satisfied,
    or (None, witness) with witness = dict(input=[bytes], symbol=b|256, kind=..., expected=..., observed=...)
    for the first failing pair in breadth-first order (a shortest input reaching a disagreement)."""
    blocks = byte_classes(r0)
    start = (r0, mach.start)
    seen = {(id(r0), mach.start): None}     # -> (parent key, byte)
    order = [start]
    queue = [start]
    finals = {}

    def path(key):
        out = []
        while seen[key] is not None:
            key, b = seen[key]
            out.append(b)
        return out[::-1]

    def is_final(r):
        f = finals.get(id(r))
        if f is None:
            f = finals[id(r)] = all(deriv(bl[0], r).void for bl in blocks)
        return f

    qi = 0
    while qi < len(queue):
        r, q = queue[qi]; qi += 1
        key = (id(r), q)
        if mach.accepting(q) != r.nullable:
            return None, dict(input=path(key), symbol=None, kind="acceptance",
                              expected="in the language" if r.nullable else "not in the language",
                              observed="machine state %d is %saccepting" % (q, "" if mach.accepting(q) else "not "))
        for bl in blocks:
            rd = deriv(bl[0], r)
            for b in bl:
                st = mach.step(q, b)
                if st[0] == "consume":
                    if rd.void:
                        return None, dict(input=path(key), symbol=b, kind="consumes-dead-byte",
                                          expected="FAIL at this byte (no member of the language continues)", observed="byte consumed, state %d" % st[1])
                    k2 = (id(rd), st[1])
                    if k2 not in seen:
                        seen[k2] = (key, b)
                        queue.append((rd, st[1])); order.append((rd, st[1]))
                        if len(order) > limit:
                            raise SearchLimit("product larger than %d pairs" % limit)
                elif st[1] == "FAIL" and not st[3]:
                    if not rd.void:
                        return None, dict(input=path(key), symbol=b, kind="early-mismatch",
                                          expected="byte accepted (members of the language continue)", observed="FAIL at this byte")
                elif st[1] == "DONE" and not st[3]:
                    if not (rd.nullable and is_final(rd)):
                        return None, dict(input=path(key), symbol=b, kind="early-done",
                                          expected=("prefix not in the language" if not rd.nullable else "longer members exist") if not rd.void else "FAIL at this byte",
                                          observed="DONE at this byte")
                    k2 = (id(rd), st[2])
                    if k2 not in seen:
                        seen[k2] = (key, b)
                        queue.append((rd, st[2])); order.append((rd, st[2]))
                else:
                    return None, dict(input=path(key), symbol=b, kind="unexpected-return",
                                      expected="consume / FAIL / DONE", observed=repr(st))
        se = mach.step(q, END)
        ok_end = se[0] == "ret" and (se[1] == "FAIL" or (se[1] == "DONE" and r.nullable))
        if not ok_end:
            return None, dict(input=path(key), symbol=END, kind="end-of-input",
                              expected="end-of-input is not matched (FAIL, or DONE when the input is in the language)", observed=repr(se))
    return order, None


def spec_run(r0, w):
    """what the property demands of a run on w, computed from derivatives only:
    ("FAIL", i) the first dead byte, or ("ALIVE", accepted, may_done_at) """
    r = r0
    done_at = None
    for i, b in enumerate(w):
        r = deriv(b, r)
        if r.void:
            return ("FAIL", i)
    return ("ALIVE", r.nullable, None)


# ---------------------------------------------------------------------------
# generators
# ---------------------------------------------------------------------------
def small_atoms(binary):
    """the small alphabet of the exhaustive enumeration"""
    if binary:
        return [("chr", 0x61), ("chr", 0x62), ("set", (("r", 0x30, 0x39),)), ("nset", (("c", 0x61),)), ("any",),
                ("set", (("r", 0x61, 0x63),)), ("set", (("r", 0x80, 0xff),)), ("chr", 0xff)]
    return [("chr", 97), ("chr", 98), ("cls", "d"), ("nset", (("c", 97),)), ("any",), ("set", (("r", 97, 99),)),
            ("set", (("r", 0xa1, 0xff),)), ("chr", 0xe9)]


def enumerate_small(size, atoms, reps=((("rep", 2),), (("range", 1, 2),), (("atleast", 1),), (("atleast", 0),), (("range", 0, 1),), (("rep", 0),))):
    """every surface regex with exactly `size` nodes over the atoms (unary: ? * + and the repeat forms; binary: seq, alt)"""
    memo = {}

    def go(n):
        if n in memo:
            return memo[n]
        out = []
        if n == 1:
            out = list(atoms)
        else:
            for a in go(n - 1):
                out.append(("opt", a)); out.append(("star", a)); out.append(("plus", a))
                for (rp,) in reps:
                    out.append((rp[0],) + tuple(rp[1:]) + (a,))
                if n - 1 >= 2:
                    out.append(("grp", a))
            for k in range(1, n - 1):
                for a in go(k):
                    for b in go(n - 1 - k):
                        out.append(("seq", a, b))
                        out.append(("alt", a, b))
        memo[n] = out
        return out
    return go(size)


TEXT_LITS = [ord(c) for c in "abcxyzABZ0159_-,:;=!@#%&<>~$'\"`"] + [ord(c) for c in ".*()[]\\+{}|/"] + [32, 10, 9, 13, 0xa1, 0xe9, 0xff, 0xb5]
SET_LITS = [ord(c) for c in "abcxyzAZ059_,:;=!@#%&<>~$.?*()[+{}|"] + [ord(c) for c in "-]\\/"] + [32, 10, 9, 13, 0xa1, 0xe9, 0xff]
RANGE_ENDS = [ord(c) for c in "acfmz09AFZ!~"] + [0xa1, 0xc0, 0xff]


def rand_items(rng, binary):
    items = []
    for _ in range(rng.choice([1, 1, 2, 2, 3, 4])):
        k = rng.random()
        if binary:
            if k < 0.5:
                items.append(("c", rng.choice([0, 1, 0x0a, 0x20, 0x41, 0x61, 0x7f, 0x80, 0xfe, 0xff, rng.randrange(256)])))
            else:
                lo = rng.choice([0, 0x10, 0x30, 0x41, 0x61, 0x7f, 0x80, 0xf0, rng.randrange(256)])
                hi = min(255, lo + rng.choice([0, 1, 5, 9, 25, 0x7f, 255]))
                items.append(("r", lo, hi))
        else:
            if k < 0.4:
                items.append(("c", rng.choice(SET_LITS)))
            elif k < 0.7:
                lo, hi = sorted((rng.choice(RANGE_ENDS), rng.choice(RANGE_ENDS)))
                items.append(("r", lo, hi))
            else:
                items.append(("k", rng.choice(CLASSES)))
    return tuple(items)


def rand_atom(rng, binary):
    k = rng.random()
    if binary:
        if k < 0.5: return ("chr", rng.choice([0, 1, 0x0a, 0x20, 0x41, 0x61, 0x62, 0x7f, 0x80, 0xfe, 0xff, rng.randrange(256)]))
        if k < 0.65: return ("any",)
        if k < 0.85: return ("set", rand_items(rng, True))
        return ("nset", rand_items(rng, True))
    if k < 0.40: return ("chr", rng.choice(TEXT_LITS))
    if k < 0.55: return ("cls", rng.choice(CLASSES))
    if k < 0.65: return ("any",)
    if k < 0.85: return ("set", rand_items(rng, False))
    return ("nset", rand_items(rng, False))


def rand_regex(rng, binary, depth):
    if depth <= 0 or rng.random() < 0.18:
        return rand_atom(rng, binary)
    k = rng.random()
    if k < 0.34:
        return ("seq", rand_regex(rng, binary, depth - 1), rand_regex(rng, binary, depth - 1))
    if k < 0.52:
        return ("alt", rand_regex(rng, binary, depth - 1), rand_regex(rng, binary, depth - 1))
    if k < 0.58:
        return ("grp", rand_regex(rng, binary, depth - 1))
    a = rand_regex(rng, binary, depth - 1)
    k = rng.random()
    if k < 0.2: return ("opt", a)
    if k < 0.4: return ("star", a)
    if k < 0.55: return ("plus", a)
    if k < 0.7: return ("rep", rng.choice([0, 1, 2, 2, 3, 4]), a)
    if k < 0.85:
        n = rng.choice([0, 0, 1, 1, 2, 3]); return ("range", n, n + rng.choice([0, 1, 1, 2, 3]), a)
    return ("atleast", rng.choice([0, 0, 1, 1, 2, 3]), a)


def features(s, acc=None):
    """names of the dialect features a surface regex uses"""
    acc = set() if acc is None else acc
    t = s[0]
    if t == "chr":
        acc.add("literal")
        if s[1] >= 128: acc.add("high-byte")
        if chr(s[1]) in TEXT_META or s[1] in (32, 10, 9, 13): acc.add("escape")
    elif t == "cls": acc.add("class-\\" + s[1])
    elif t in ("set", "nset"):
        acc.add("set" if t == "set" else "inverted-set")
        for it in s[1]:
            if it[0] == "r":
                acc.add("range")
                if it[2] >= 128: acc.add("high-byte")
            elif it[0] == "k":
                acc.add("class-in-set"); acc.add("class-\\" + it[1])
            elif it[1] >= 128: acc.add("high-byte")
    elif t == "any": acc.add("wildcard")
    else:
        acc.add({"grp": "group", "seq": "sequence", "alt": "alternation", "opt": "?", "star": "*", "plus": "+",
                 "rep": "{n}", "range": "{n,m}", "atleast": "{n,}"}[t])
        for x in s[1:]:
            if isinstance(x, tuple):
                features(x, acc)
    return acc


def surface_size(s):
    return 1 + sum(surface_size(x) for x in s[1:] if isinstance(x, tuple) and x and isinstance(x[0], str) and s[0] not in ("set", "nset"))
