(* Driver for the extracted concrete model (CSkel.Run).  Input (tokens on stdin):
     <dfa>  (same text format as machk)
     cfg <safe_idx> <ndecls> decl... <nprims> prim... <ntests> test... <ndefaults> default-prim...
       decl := I <cty> | B <size> <null> <u8>
       prim := SI v expr | SS v n b.. | DL v | AP v | AE v expr | HK h
       test := FU v | CD expr
       expr := L z | K z | V v | N v | X v expr | $ | O op expr expr
     then commands:
       init val...            val := I z | B counter ncells cell.. (cell = -1: indeterminate)   -> sets the data used by later commands
       step q sym             one forced step from state q (sym 256 = end-of-input) on the init data
       run nchunks len.. bytes.. endflag     start(); feed each chunk (re-invoking after yields); end() if endflag
   Output: one line per call, "<code> <state> <consumed> | outs | hooks" or "UNDEF".                     *)
open Machine

let rec nat_of_int i = if i <= 0 then O else S (nat_of_int (i - 1))
let rec int_of_nat = function O -> 0 | S n -> 1 + int_of_nat n
let rec pos_of_int i = if i = 1 then XH else if i land 1 = 1 then XI (pos_of_int (i lsr 1)) else XO (pos_of_int (i lsr 1))
let n_of_int i = if i = 0 then N0 else Npos (pos_of_int i)
let rec int_of_pos = function XH -> 1 | XO p -> 2 * int_of_pos p | XI p -> 2 * int_of_pos p + 1
let int_of_n = function N0 -> 0 | Npos p -> int_of_pos p
(* Z from / to decimal strings (arbitrary precision through repeated doubling on strings is overkill:
   values that matter fit in OCaml's 63-bit int except 64-bit boundary values, handled via Int64/strings) *)
let z_of_string (s : string) : z =
  (* parse decimal with sign into Coq Z by Horner on positives *)
  let neg = String.length s > 0 && s.[0] = '-' in
  let digits = if neg then String.sub s 1 (String.length s - 1) else s in
  let ten = Zpos (pos_of_int 10) in
  let acc = ref Z0 in
  String.iter (fun c -> let d = Char.code c - 48 in
    acc := Z.add (Z.mul !acc ten) (if d = 0 then Z0 else Zpos (pos_of_int d))) digits;
  if neg then Z.opp !acc else !acc
let string_of_z (z : z) : string =
  (* to decimal by repeated division by 10 *)
  let ten = Zpos (pos_of_int 10) in
  let rec go z acc = match z with
    | Z0 -> if acc = "" then "0" else acc
    | _ -> let q = Z.quot z ten in let r = Z.rem z ten in
           let d = (match r with Z0 -> 0 | Zpos p -> int_of_pos p | Zneg p -> int_of_pos p) in
           go q (string_of_int d ^ acc) in
  match z with Zneg p -> "-" ^ go (Zpos p) "" | _ -> go z ""

let n_of_hex (s : string) : n =
  let bits = ref [] in
  for i = String.length s - 1 downto 0 do
    let v = int_of_string ("0x" ^ String.make 1 s.[i]) in
    bits := !bits @ [v land 1; (v lsr 1) land 1; (v lsr 2) land 1; (v lsr 3) land 1]
  done;
  let rev = List.rev !bits in
  let rec strip = function 0 :: r -> strip r | l -> l in
  match strip rev with
  | [] -> N0
  | _ :: rest -> Npos (List.fold_left (fun acc b -> if b = 1 then XI acc else XO acc) XH rest)

let toks : string Queue.t = Queue.create ()
let fill () =
  try while true do
    let l = input_line stdin in
    List.iter (fun t -> if t <> "" then Queue.add t toks) (String.split_on_char ' ' l)
  done with End_of_file -> ()
let next () = Queue.pop toks
let next_int () = int_of_string (next ())
let next_bool () = next_int () <> 0

let rec parse_atree () : atree =
  match next () with
  | "E" -> AEnd
  | "P" -> let p = next_int () in let k = parse_atree () in APrim (n_of_int p, k)
  | "T" -> let t = next_int () in let a = parse_atree () in let b = parse_atree () in ATest (n_of_int t, a, b)
  | "R" -> (match next () with
            | "D" -> ARet RDone | "O" -> ARet ROk | "X" -> ARet RFail
            | "F" -> ARet (RFinish (n_of_int (next_int ())))
            | "Y" -> ARet (RYield (n_of_int (next_int ())))
            | s -> failwith ("bad res " ^ s))
  | "G" -> AGoto (nat_of_int (next_int ()))
  | "B" -> ABreak (nat_of_int (next_int ()))
  | s -> failwith ("bad atree token " ^ s)

let parse_trans () : trans =
  let on = n_of_hex (next ()) in
  let tgt = next_int () in
  let fall = next_bool () in let err = next_bool () in let early = next_bool () in
  let acts = parse_atree () in
  { t_on = on; t_tgt = (if tgt < 0 then None else Some (nat_of_int tgt)); t_fall = fall; t_err = err; t_early = early; t_acts = acts }

let parse_dfa () : dfa =
  (match next () with "dfa" -> () | s -> failwith ("expected dfa, got " ^ s));
  let nst = next_int () in let start = next_int () in
  let strict = next_bool () in let endcheck = next_bool () in
  let nacc = next_int () in
  let acc = List.init nacc (fun _ -> nat_of_int (next_int ())) in
  let sacts = parse_atree () in
  let states = List.init nst (fun _ ->
    match next () with
    | "N" -> let n = next_int () in SNormal (List.init n (fun _ -> parse_trans ()))
    | "C" -> let n = next_int () in
             SCond (List.init n (fun _ -> let c = next_int () in let t = parse_trans () in ((if c < 0 then None else Some (n_of_int c)), t)))
    | "F" -> SFail
    | s -> failwith ("bad state kind " ^ s)) in
  { d_states = states; d_start = nat_of_int start; d_acc = acc; d_start_acts = sacts; d_strict_done = strict; d_end_check = endcheck }

let parse_cty () : cty =
  match next () with
  | "bool" -> TBool | "i8" -> TI8 | "u8" -> TU8 | "i16" -> TI16 | "u16" -> TU16
  | "i32" -> TI32 | "u32" -> TU32 | "i64" -> TI64 | "u64" -> TU64 | s -> failwith ("bad cty " ^ s)

let parse_op () : binop =
  match next () with
  | "+" -> OAdd | "-" -> OSub | "*" -> OMul | "/" -> ODiv | "%" -> OMod | "&" -> OAnd | "|" -> OOr | "^" -> OXor
  | "<<" -> OShl | ">>" -> OShr | "==" -> OEq | "!=" -> ONe | "<" -> OLt | ">" -> OGt | "<=" -> OLe | ">=" -> OGe
  | "&&" -> OLAnd | "||" -> OLOr | s -> failwith ("bad op " ^ s)

let rec parse_expr () : iexpr =
  match next () with
  | "L" -> ELit (z_of_string (next ()))
  | "K" -> EConstInt (z_of_string (next ()))
  | "V" -> EVar (nat_of_int (next_int ()))
  | "N" -> ELen (nat_of_int (next_int ()))
  | "X" -> let v = next_int () in let e = parse_expr () in EIdx (nat_of_int v, e)
  | "$" -> ELast
  | "O" -> let op = parse_op () in let a = parse_expr () in let b = parse_expr () in EBin (op, a, b)
  | s -> failwith ("bad expr token " ^ s)

let parse_cfg () : ccfg =
  (match next () with "cfg" -> () | s -> failwith ("expected cfg, got " ^ s));
  let safe = next_bool () in
  let nd = next_int () in
  let decls = List.init nd (fun _ -> match next () with
    | "I" -> DInt (parse_cty ())
    | "B" -> let size = next_int () in let nul = next_bool () in let u8 = next_bool () in DBuf (nat_of_int size, nul, u8)
    | s -> failwith ("bad decl " ^ s)) in
  let np = next_int () in
  let prims = List.init np (fun _ -> match next () with
    | "SI" -> let v = next_int () in let e = parse_expr () in PSetInt (nat_of_int v, e)
    | "SS" -> let v = next_int () in let n = next_int () in let bs = List.init n (fun _ -> n_of_int (next_int ())) in PSetStr (nat_of_int v, bs)
    | "DL" -> PDelete (nat_of_int (next_int ()), false)
    | "DF" -> PDelete (nat_of_int (next_int ()), true)
    | "AP" -> PAppend (nat_of_int (next_int ()))
    | "AE" -> let v = next_int () in let e = parse_expr () in PAppendExpr (nat_of_int v, e)
    | "HK" -> PHook (nat_of_int (next_int ()))
    | s -> failwith ("bad prim " ^ s)) in
  let nt = next_int () in
  let tests = List.init nt (fun _ -> match next () with
    | "FU" -> TFull (nat_of_int (next_int ()))
    | "CD" -> TCond (parse_expr ())
    | s -> failwith ("bad test " ^ s)) in
  let ndf = next_int () in
  let defaults = List.init ndf (fun _ -> match next () with
    | "SI" -> let v = next_int () in let e = parse_expr () in PSetInt (nat_of_int v, e)
    | "SS" -> let v = next_int () in let n = next_int () in let bs = List.init n (fun _ -> n_of_int (next_int ())) in PSetStr (nat_of_int v, bs)
    | "DL" -> PDelete (nat_of_int (next_int ()), false)
    | s -> failwith ("bad default " ^ s)) in
  { c_decls = decls; c_prims = prims; c_tests = tests; c_safe_idx = safe; c_defaults = defaults }

let parse_vals (cfg : ccfg) : oval list =
  List.map (fun _ -> match next () with
    | "I" -> VInt (z_of_string (next ()))
    | "B" -> let counter = next_int () in let n = next_int () in
             let cells = List.init n (fun _ -> let c = next_int () in if c < 0 then None else Some (n_of_int c)) in
             VBuf (cells, nat_of_int counter)
    | s -> failwith ("bad val " ^ s)) cfg.c_decls

let hex2 b = Printf.sprintf "%02x" b
let show_val (d : odecl) (v : oval) : string =
  match d, v with
  | DInt _, VInt z -> string_of_z z
  | DBuf (_, nul, _), VBuf (cells, n) ->
      let n = int_of_nat n in
      let buf = Buffer.create 16 in
      Buffer.add_string buf (string_of_int n); Buffer.add_char buf ':';
      List.iteri (fun i c -> if i < n then Buffer.add_string buf (match c with Some b -> hex2 (int_of_n b) | None -> "??")) cells;
      if nul then begin
        let t = (try List.nth cells n with _ -> Some (Npos XH)) in
        Buffer.add_string buf (match t with Some N0 -> ":T1" | None -> ":T?" | _ -> ":T0")
      end;
      Buffer.contents buf
  | _, _ -> "?"
let show_vals cfg vs = String.concat "," (List.map2 show_val cfg.c_decls vs)
let show_res = function
  | ROk -> "OK" | RFail -> "FAIL" | RDone -> "DONE"
  | RFinish c -> "F" ^ string_of_int (int_of_n c) | RYield c -> "Y" ^ string_of_int (int_of_n c)
let show_hooks cfg (hs : hookrec list) =
  String.concat ";" (List.map (fun h -> Printf.sprintf "%d@%d[%s]" (int_of_nat h.h_id) (int_of_n h.h_inval) (show_vals cfg h.h_snap)) hs)
let line cfg r q consumed (x : cdata) =
  Printf.printf "%s %d %d | %s | %s\n" (show_res r) q consumed (show_vals cfg x.vals) (show_hooks cfg x.hooks)

let () =
  fill ();
  let d = parse_dfa () in
  let cfg = parse_cfg () in
  let cur = ref { vals = []; hooks = [] } in
  while not (Queue.is_empty toks) do
    match next () with
    | "init" -> cur := { vals = parse_vals cfg; hooks = [] }
    | "step" ->
        let q = next_int () in let s = next_int () in
        let inval = if s = 256 then 255 else s in
        let tr = step_tree d (nat_of_int q) (n_of_int s) in
        (* UNDEF SPIN: the normal form of this step runs out of fuel on some branch - the machine can go round without consuming *)
        let rec spins t = match t with OutOfFuel -> true | Leaf _ -> false | Act (_, k) -> spins k | Test (_, a, b) -> spins a || spins b in
        (match ceval_tree cfg tr (n_of_int inval) !cur with
         | None -> print_endline (if spins tr then "UNDEF SPIN" else "UNDEF")
         | Some (LConsume q', x) -> line cfg ROk (int_of_nat q') 1 x
         | Some (LRet (r, q', adv), x) -> line cfg r (int_of_nat q') (if adv then 1 else 0) x)
    | "guard" -> print_endline (if appends_guarded cfg d then "guarded" else "UNGUARDED")
    | "stepn" ->
        let q = next_int () in let n = next_int () in
        let bs = List.init n (fun _ -> n_of_int (next_int ())) in
        (match cfeed cfg d bs (nat_of_int q) !cur with
         | None -> print_endline "UNDEF"
         | Some ret -> line cfg ret.r_res (int_of_nat ret.r_q) (int_of_nat ret.r_consumed) ret.r_x)
    | "run" ->
        let nch = next_int () in
        let lens = List.init nch (fun _ -> next_int ()) in
        let chunks = List.map (fun l -> List.init l (fun _ -> n_of_int (next_int ()))) lens in
        let endmode = next_int () in
        let endflag = endmode land 1 <> 0 in
        let keep = endmode land 2 <> 0 in
        (match cstart cfg d !cur with
         | None -> print_endline "UNDEF"
         | Some ((r, q), x) ->
             line cfg r (int_of_nat q) 0 x;
             let st = ref (Some (q, { vals = x.vals; hooks = [] })) in
             let stop = ref (match r with ROk -> false | _ -> not keep) in
             List.iter (fun chunk ->
               (* feed the chunk; after a yield re-invoke with the rest *)
               let rest = ref chunk in
               let continue = ref true in
               while !continue && not !stop do
                 match !st with
                 | None -> continue := false
                 | Some (q, x) ->
                   (match cfeed cfg d !rest q x with
                    | None -> print_endline "UNDEF"; st := None; continue := false
                    | Some ret ->
                        line cfg ret.r_res (int_of_nat ret.r_q) (int_of_nat ret.r_consumed) ret.r_x;
                        st := Some (ret.r_q, { vals = ret.r_x.vals; hooks = [] });
                        (match ret.r_res with
                         | RYield _ ->
                             let c = int_of_nat ret.r_consumed in
                             rest := List.filteri (fun i _ -> i >= c) !rest;
                             if !rest = [] && not d.d_end_check then continue := false
                         | ROk -> continue := false
                         | _ -> if keep then continue := false else stop := true))
               done) chunks;
             if endflag && not !stop then
               (match !st with
                | None -> ()
                | Some (q, x) ->
                    (match cend cfg d q x with
                     | None -> print_endline "UNDEF"
                     | Some ret -> line cfg ret.r_res (int_of_nat ret.r_q) 0 ret.r_x)));
        print_endline "--"
    | s -> failwith ("unknown command " ^ s)
  done
