(* Driver for the extracted checkers.  Reads tasks from stdin, one result line per task.
   Text format (whitespace separated tokens), produced by harness/export.py:text_dfa
     dfa <nstates> <start> <strict 0|1> <endcheck 0|1> <nacc> acc... <start atree>
       then per state:  N <ntrans> trans...  |  C <nbrs> (<tid|-1> trans)...  |  F
     trans := <on hex> <tgt|-1> <fall> <err> <early> <atree>
     atree := E | P <pid> atree | T <tid> atree atree | R (D | O | X | F <n> | Y <n>) | G <q> | B <q>
   Tasks:  nospin <dfa>   |   wf <dfa>   |   failpos <dfa>   |   bisim <dfa> <dfa>                                                   *)
open Machine

let rec nat_of_int i = if i <= 0 then O else S (nat_of_int (i - 1))
let rec int_of_nat = function O -> 0 | S n -> 1 + int_of_nat n
let rec pos_of_int i = if i = 1 then XH else if i land 1 = 1 then XI (pos_of_int (i lsr 1)) else XO (pos_of_int (i lsr 1))
let n_of_int i = if i = 0 then N0 else Npos (pos_of_int i)
let rec int_of_pos = function XH -> 1 | XO p -> 2 * int_of_pos p | XI p -> 2 * int_of_pos p + 1
let int_of_n = function N0 -> 0 | Npos p -> int_of_pos p
(* hex string (most significant digit first) -> N, via bits *)
let n_of_hex (s : string) : n =
  let bits = ref [] in  (* least significant first *)
  for i = String.length s - 1 downto 0 do
    let v = int_of_string ("0x" ^ String.make 1 s.[i]) in
    bits := !bits @ [v land 1; (v lsr 1) land 1; (v lsr 2) land 1; (v lsr 3) land 1]
  done;
  (* build positive from most significant bit *)
  let rev = List.rev !bits in
  let rec strip = function 0 :: r -> strip r | l -> l in
  match strip rev with
  | [] -> N0
  | _ :: rest -> Npos (List.fold_left (fun acc b -> if b = 1 then XI acc else XO acc) XH rest)

let toks : string Queue.t = Queue.create ()
let fill () =
  try while true do
    let l = input_line stdin in
    List.iter (fun t -> if t <> "" then Queue.add t toks) (String.split_on_char ' ' l)
  done with End_of_file -> ()
let next () = Queue.pop toks
let next_int () = int_of_string (next ())
let next_bool () = next_int () <> 0

let rec parse_atree () : atree =
  match next () with
  | "E" -> AEnd
  | "P" -> let p = next_int () in let k = parse_atree () in APrim (n_of_int p, k)
  | "T" -> let t = next_int () in let a = parse_atree () in let b = parse_atree () in ATest (n_of_int t, a, b)
  | "R" -> (match next () with
            | "D" -> ARet RDone | "O" -> ARet ROk | "X" -> ARet RFail
            | "F" -> ARet (RFinish (n_of_int (next_int ())))
            | "Y" -> ARet (RYield (n_of_int (next_int ())))
            | s -> failwith ("bad res " ^ s))
  | "G" -> AGoto (nat_of_int (next_int ()))
  | "B" -> ABreak (nat_of_int (next_int ()))
  | s -> failwith ("bad atree token " ^ s)

let parse_trans () : trans =
  let on = n_of_hex (next ()) in
  let tgt = next_int () in
  let fall = next_bool () in let err = next_bool () in let early = next_bool () in
  let acts = parse_atree () in
  { t_on = on; t_tgt = (if tgt < 0 then None else Some (nat_of_int tgt)); t_fall = fall; t_err = err; t_early = early; t_acts = acts }

let parse_dfa () : dfa =
  (match next () with "dfa" -> () | s -> failwith ("expected dfa, got " ^ s));
  let nst = next_int () in let start = next_int () in
  let strict = next_bool () in let endcheck = next_bool () in
  let nacc = next_int () in
  let acc = List.init nacc (fun _ -> nat_of_int (next_int ())) in
  let sacts = parse_atree () in
  let states = List.init nst (fun _ ->
    match next () with
    | "N" -> let n = next_int () in SNormal (List.init n (fun _ -> parse_trans ()))
    | "C" -> let n = next_int () in
             SCond (List.init n (fun _ -> let c = next_int () in let t = parse_trans () in ((if c < 0 then None else Some (n_of_int c)), t)))
    | "F" -> SFail
    | s -> failwith ("bad state kind " ^ s)) in
  { d_states = states; d_start = nat_of_int start; d_acc = acc; d_start_acts = sacts; d_strict_done = strict; d_end_check = endcheck }

let () =
  fill ();
  while not (Queue.is_empty toks) do
    match next () with
    | "nospin" ->
        let d = parse_dfa () in
        let ok = norm_ok d && yield_ok d in
        if ok then print_endline "ok"
        else (match spin_witness d with
              | Some (q, s) -> Printf.printf "spin %d %d\n" (int_of_nat q) (int_of_n s)
              | None -> print_endline "spin ? ?")
    | "wf" ->
        let d = parse_dfa () in
        if not (dfa_wf d) then print_endline "nowf"
        else if no_stuck_ok d then print_endline "ok"
        else (match stuck_witness d with
              | Some (q, b) -> Printf.printf "stuck %d %d\n" (int_of_nat q) (int_of_n b)
              | None -> print_endline "stuck ? ?")
    | "failpos" ->
        let d = parse_dfa () in
        if not (fail_entry_ok d) then
          (match fail_entry_witness d with
           | Some (q, b) -> Printf.printf "failentry %d %d\n" (int_of_nat q) (int_of_n b)
           | None -> print_endline "failentry ? ?")
        else if not (fail_sticky_ok d) then
          (match fail_sticky_witness d with
           | Some (q, b) -> Printf.printf "failsticky %d %d\n" (int_of_nat q) (int_of_n b)
           | None -> print_endline "failsticky ? ?")
        else print_endline "ok"
    | "endsafe" ->
        let d = parse_dfa () in
        if end_safe d then print_endline "ok"
        else (match end_witness d with Some q -> Printf.printf "unsafe %d\n" (int_of_nat q) | None -> print_endline "unsafe ?")
    | "bbisim" | "bbisim0" as task ->
        let nfp = next_int () in let fp = List.init nfp (fun _ -> n_of_int (next_int ())) in
        let nft = next_int () in let ft = List.init nft (fun _ -> n_of_int (next_int ())) in
        let d1 = parse_dfa () in let d2 = parse_dfa () in
        let show_rel (x : rel) =
          Printf.sprintf "%s/%d/%d/%d" (match x.r_mode with EBoth -> "B" | ERet _ -> "R") (int_of_nat x.r_q1) (int_of_nat x.r_q2) (List.length x.r_pend) in
        (match dfa_slack_run_on fp ft (task = "bbisim") d1 d2 with
         | Inl true -> print_endline "ok"
         | Inl false -> print_endline "checkfail"
         | Inr f ->
             Printf.printf "mismatch %d %d %d %s" (int_of_nat f.bf_elem.r_q1) (int_of_nat f.bf_elem.r_q2) (int_of_n f.bf_sym) (show_rel f.bf_elem);
             List.iter (fun ((c, p), s) -> Printf.printf " %s<%s@%d" (show_rel c) (show_rel p) (int_of_n s)) f.bf_parents;
             print_newline ())
    | "bisim" | "bisim0" as task ->
        (* bisim0: parsers without an end function - the certificate covers the 256 byte values only *)
        let d1 = parse_dfa () in let d2 = parse_dfa () in
        (match dfa_bisim_run_on (task = "bisim") d1 d2 with
         | Inl true -> print_endline "ok"
         | Inl false -> print_endline "checkfail"
         | Inr f ->
             Printf.printf "mismatch %d %d %d" (int_of_nat f.sf_q1) (int_of_nat f.sf_q2) (int_of_n f.sf_sym);
             List.iter (fun (((a, b), (c, d)), s) ->
               Printf.printf " %d,%d,%d,%d,%d" (int_of_nat a) (int_of_nat b) (int_of_nat c) (int_of_nat d) (int_of_n s)) f.sf_parents;
             print_newline ())
    | s -> failwith ("unknown task " ^ s)
  done
