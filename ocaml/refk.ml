(* Driver for the extracted procedural-reading checker (coq/Ref).  Reads tasks from stdin, one result line per task.
     ref <nfp> fp... <nft> ft... <nsyms-spec: B (bytes) | E (bytes + end)> <prog> <dfa>
   prog  := <n> stmt...
   stmt  := A <pid> | X <tid> <pid> | R res | B <l> | M re app | W re | L <l> prog | C <ncl> clause... els | G <n> gclause...
          | O prog | T prog <nm> <os> prog | F prog prog | I <nbr> (<tid> prog)... prog
   app   := - | + <tid> <pid>          els := - | + prog
   clause := <npats> re... prog        gclause := <prio> re prog
   re    := e | v | c <hex> | s re re | a re re | k re
   res   := D | O | X | F <n> | Y <n>
   dfa as in machk.ml *)
open Refmachine

let rec nat_of_int i = if i <= 0 then O else S (nat_of_int (i - 1))
let rec int_of_nat = function O -> 0 | S n -> 1 + int_of_nat n
let rec pos_of_int i = if i = 1 then XH else if i land 1 = 1 then XI (pos_of_int (i lsr 1)) else XO (pos_of_int (i lsr 1))
let n_of_int i = if i = 0 then N0 else Npos (pos_of_int i)
let rec int_of_pos = function XH -> 1 | XO p -> 2 * int_of_pos p | XI p -> 2 * int_of_pos p + 1
let int_of_n = function N0 -> 0 | Npos p -> int_of_pos p
let n_of_hex (s : string) : n =
  let bits = ref [] in
  for i = String.length s - 1 downto 0 do
    let v = int_of_string ("0x" ^ String.make 1 s.[i]) in
    bits := !bits @ [v land 1; (v lsr 1) land 1; (v lsr 2) land 1; (v lsr 3) land 1]
  done;
  let rev = List.rev !bits in
  let rec strip = function 0 :: r -> strip r | l -> l in
  match strip rev with
  | [] -> N0
  | _ :: rest -> Npos (List.fold_left (fun acc b -> if b = 1 then XI acc else XO acc) XH rest)

let toks : string Queue.t = Queue.create ()
let fill () =
  try while true do
    let l = input_line stdin in
    List.iter (fun t -> if t <> "" then Queue.add t toks) (String.split_on_char ' ' l)
  done with End_of_file -> ()
let next () = Queue.pop toks
let next_int () = int_of_string (next ())
let next_bool () = next_int () <> 0

let parse_res () = match next () with
  | "D" -> RDone | "O" -> ROk | "X" -> RFail
  | "F" -> RFinish (n_of_int (next_int ()))
  | "Y" -> RYield (n_of_int (next_int ()))
  | s -> failwith ("bad res " ^ s)

let rec parse_atree () : atree =
  match next () with
  | "E" -> AEnd
  | "P" -> let p = next_int () in let k = parse_atree () in APrim (n_of_int p, k)
  | "T" -> let t = next_int () in let a = parse_atree () in let b = parse_atree () in ATest (n_of_int t, a, b)
  | "R" -> ARet (parse_res ())
  | "G" -> AGoto (nat_of_int (next_int ()))
  | "B" -> ABreak (nat_of_int (next_int ()))
  | s -> failwith ("bad atree token " ^ s)

let parse_trans () : trans =
  let on = n_of_hex (next ()) in
  let tgt = next_int () in
  let fall = next_bool () in let err = next_bool () in let early = next_bool () in
  let acts = parse_atree () in
  { t_on = on; t_tgt = (if tgt < 0 then None else Some (nat_of_int tgt)); t_fall = fall; t_err = err; t_early = early; t_acts = acts }

let parse_dfa () : dfa =
  (match next () with "dfa" -> () | s -> failwith ("expected dfa, got " ^ s));
  let nst = next_int () in let start = next_int () in
  let strict = next_bool () in let endcheck = next_bool () in
  let nacc = next_int () in
  let acc = List.init nacc (fun _ -> nat_of_int (next_int ())) in
  let sacts = parse_atree () in
  let states = List.init nst (fun _ ->
    match next () with
    | "N" -> let n = next_int () in SNormal (List.init n (fun _ -> parse_trans ()))
    | "C" -> let n = next_int () in
             SCond (List.init n (fun _ -> let c = next_int () in let t = parse_trans () in ((if c < 0 then None else Some (n_of_int c)), t)))
    | "F" -> SFail
    | s -> failwith ("bad state kind " ^ s)) in
  { d_states = states; d_start = nat_of_int start; d_acc = acc; d_start_acts = sacts; d_strict_done = strict; d_end_check = endcheck }

let rec parse_re () : re =
  match next () with
  | "e" -> Eps | "v" -> Void
  | "c" -> Cls (n_of_hex (next ()))
  | "s" -> let a = parse_re () in let b = parse_re () in Seq (a, b)
  | "a" -> let a = parse_re () in let b = parse_re () in Alt (a, b)
  | "k" -> Star (parse_re ())
  | s -> failwith ("bad re token " ^ s)

(* List.init evaluates in unspecified order in some versions: force left-to-right *)
let rec init_lr n f = if n <= 0 then [] else let x = f () in x :: init_lr (n - 1) f

let rec parse_prog () : stmt list = let n = next_int () in init_lr n parse_stmt
and parse_stmt () : stmt =
  match next () with
  | "A" -> SAct (n_of_int (next_int ()))
  | "X" -> let t = next_int () in let p = next_int () in SAppC (n_of_int t, n_of_int p)
  | "R" -> SRet (parse_res ())
  | "B" -> SBreak (n_of_int (next_int ()))
  | "M" -> let r = parse_re () in let a = parse_app () in SMatch (r, a)
  | "W" -> SWait (parse_re ())
  | "L" -> let l = next_int () in let b = parse_prog () in SLoop (n_of_int l, b)
  | "C" -> let n = next_int () in
           let cls = init_lr n (fun () -> let np = next_int () in let ps = init_lr np parse_re in let b = parse_prog () in Clause (ps, b)) in
           let els = (match next () with "-" -> None | "+" -> Some (parse_prog ()) | s -> failwith ("bad els " ^ s)) in
           SCase (cls, els)
  | "G" -> let n = next_int () in
           SGCase (init_lr n (fun () -> let pr = next_int () in let p = parse_re () in let b = parse_prog () in GClause (n_of_int pr, p, b)))
  | "O" -> SOptional (parse_prog ())
  | "T" -> let b = parse_prog () in let nm = next_bool () in let os = next_bool () in let h = parse_prog () in STry (b, nm, os, h)
  | "F" -> let b = parse_prog () in let e = parse_prog () in SForeach (b, e)
  | "I" -> let n = next_int () in
           let brs = init_lr n (fun () -> let c = next_int () in let b = parse_prog () in IBranch (n_of_int c, b)) in
           let e = parse_prog () in SIf (brs, e)
  | s -> failwith ("bad stmt token " ^ s)
and parse_app () = match next () with
  | "-" -> None
  | "+" -> let t = next_int () in let p = next_int () in Some (n_of_int t, n_of_int p)
  | s -> failwith ("bad app " ^ s)

let bytes_syms = List.init 256 n_of_int
let all_syms_e = List.init 257 n_of_int

let rec show_tree (t : tree) : string =
  match t with
  | Leaf (LConsume q) -> Printf.sprintf "c%d" (int_of_nat q)
  | Leaf (LRet (r, q, adv)) ->
      Printf.sprintf "r[%s,%d,%b]" (match r with ROk -> "OK" | RFail -> "FAIL" | RDone -> "DONE" | RFinish c -> "FIN" ^ string_of_int (int_of_n c) | RYield c -> "YLD" ^ string_of_int (int_of_n c)) (int_of_nat q) adv
  | Act (p, k) -> Printf.sprintf "p%d;%s" (int_of_n p) (show_tree k)
  | Test (c, a, b) -> Printf.sprintf "t%d?(%s):(%s)" (int_of_n c) (show_tree a) (show_tree b)
  | OutOfFuel -> "FUEL"

let show_res r = match r with ROk -> "OK" | RFail -> "FAIL" | RDone -> "DONE" | RFinish c -> "FIN" ^ string_of_int (int_of_n c) | RYield c -> "YLD" ^ string_of_int (int_of_n c)
let show_cut = function Some i -> Printf.sprintf "^%d" (int_of_nat i) | None -> ""
let rec show_stree (t : stree) : string =
  match t with
  | TCons i -> Printf.sprintf "c%d" (int_of_nat i)
  | TRet (c, r, i, adv) -> Printf.sprintf "%sr[%s,%d,%b]" (show_cut c) (show_res r) (int_of_nat i) adv
  | TAct (c, p, k) -> Printf.sprintf "%sp%d;%s" (show_cut c) (int_of_n p) (show_stree k)
  | TTest (c, t, a, b) -> Printf.sprintf "%st%d?(%s):(%s)" (show_cut c) (int_of_n t) (show_stree a) (show_stree b)
  | TChoice (a, b) -> Printf.sprintf "{%s | %s}" (show_stree a) (show_stree b)
  | TBad -> "BAD"

let rec show_frame (f : frame) : string =
  match f with
  | FSeq ss -> Printf.sprintf "seq%d" (List.length ss)
  | FLoop (l, _) -> Printf.sprintf "loop%d" (int_of_n l)
  | FTry (nm, os, _) -> Printf.sprintf "try%s%s" (if nm then "n" else "") (if os then "o" else "")
  | FForeach _ -> "foreach"
  | FM (_, _) -> "m"
  | FW (_, _) -> "w"
  | FC (v, _, _, st) -> Printf.sprintf "case%d%s" (List.length v) (if st then "+" else "")
  | FG (v, _, st) -> Printf.sprintf "gcase%d%s" (List.length v) (if st then "+" else "")
let show_cfg (k : cfg) = "<" ^ String.concat " " (List.map show_frame k) ^ ">"

let () =
  fill ();
  while not (Queue.is_empty toks) do
    match next () with
    | "ref" ->
        let nfp = next_int () in let _ = init_lr nfp (fun () -> n_of_int (next_int ())) in
        let nft = next_int () in let _ = init_lr nft (fun () -> n_of_int (next_int ())) in
        let syms = (match next () with "B" -> bytes_syms | "E" -> all_syms_e | s -> failwith ("bad syms " ^ s)) in
        let p = parse_prog () in
        let d = parse_dfa () in
        let show_pair (i, q) = Printf.sprintf "%d/%d" (int_of_nat i) (int_of_nat q) in
        (match sim_run syms p d with
         | Inl ((true, n), r) -> Printf.printf "ok %d %d\n" (int_of_nat n) (int_of_nat r)
         | Inl ((false, _), _) -> print_endline "checkfail"
         | Inr (f, tbl) ->
             let (i, q) = f.sf_pair and s = f.sf_sym in
             let si = int_of_n s in
             if si = 997 then
               Printf.printf "mismatch start - %d ### %s ### %s ###\n" (int_of_nat q) (show_stree (to_stree tbl (start_tree p))) (show_tree (start_tree_of d d.d_start_acts))
             else begin
               let opts = if si <= 256 then String.concat " || " (List.map show_stree (ref_spec tbl i s)) else "-" in
               let t2 = if si <= 256 then show_tree (step_tree d q s) else "-" in
               let cfgs = (match List.nth_opt tbl (int_of_nat i) with Some k -> show_cfg k | None -> "?") in
               Printf.printf "mismatch %d %d %d %s ### %s ### %s ###" (int_of_nat i) (int_of_nat q) si cfgs opts t2;
               List.iter (fun ((c, p), s) -> Printf.printf " %s<%s@%d" (show_pair c) (show_pair p) (int_of_n s)) f.sf_parents;
               print_newline ()
             end)
    | "amb" ->
        (* amb <B|E> <prog> : ok <table size> | open <table size> (table not closed) | amb <kind> <symbol> <cfg> | <input symbols...> *)
        let syms = (match next () with "B" -> bytes_syms | "E" -> all_syms_e | s -> failwith ("bad syms " ^ s)) in
        let p = parse_prog () in
        let ((closed, w), n) = unambig_run syms p in
        (match w with
         | None -> Printf.printf "%s %d\n" (if closed then "ok" else "open") (int_of_nat n)
         | Some ((k1, s), kind) ->
             let kname = (match kind with AmbOptional -> "optional" | AmbOpenMatch -> "open-match" | AmbWait -> "wait" | AmbCaseTwo -> "case-two-clauses"
                                         | AmbCasePrefix -> "case-prefix" | AmbGreedyTie -> "greedy-tie") in
             (* breadth-first search for an input that reaches a configuration with this ambiguity *)
             let seen = ref [] in
             let mem k = List.exists (fun k' -> cfg_eqb k k') !seen in
             let q = Queue.create () in
             List.iter (fun k -> if not (mem k) then (seen := k :: !seen; Queue.add (k, []) q)) (succs_of (start_tree p) []);
             let found = ref None in
             while !found = None && not (Queue.is_empty q) do
               let (k, path) = Queue.pop q in
               (match amb_of_cfg ref_fuel syms k with
                | Some _ -> found := Some path
                | None ->
                    List.iter (fun sy ->
                      List.iter (fun o -> List.iter (fun k2 -> if not (mem k2) then (seen := k2 :: !seen; Queue.add (k2, sy :: path) q)) (succs_of o [])) (options k sy)) syms)
             done;
             Printf.printf "amb %s %d %s |" kname (int_of_n s) (show_cfg k1);
             (match !found with Some path -> List.iter (fun sy -> Printf.printf " %d" (int_of_n sy)) (List.rev path) | None -> print_string " ?");
             print_newline ())
    | "refdbg" ->
        (* refdbg <B|E> <prog> <dfa> <n> (<cfg idx> <state> <sym>)...  : print the option trees and the machine tree *)
        let syms = (match next () with "B" -> bytes_syms | "E" -> all_syms_e | s -> failwith ("bad syms " ^ s)) in
        let p = parse_prog () in
        let d = parse_dfa () in
        let tbl = ref_table syms p in
        let n = next_int () in
        for _ = 1 to n do
          let i = next_int () in let q = next_int () in let sy = next_int () in
          let cfgs = (match List.nth_opt tbl i with Some k -> show_cfg k | None -> "?") in
          Printf.printf "%d/%d@%d %s | %s | %s\n" i q sy cfgs
            (String.concat " || " (List.map show_stree (ref_spec tbl (nat_of_int i) (n_of_int sy))))
            (show_tree (step_tree d (nat_of_int q) (n_of_int sy)))
        done
    | s -> failwith ("unknown task " ^ s)
  done
