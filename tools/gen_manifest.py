#!/usr/bin/env python3
"""Writes MANIFEST.json from the table below (one entry per claimed property)."""
import json, os
V = os.path.dirname(os.path.dirname(os.path.abspath(__file__)))
ALL = ["C%02d" % i for i in range(1, 21)]
CLAIMED = {
 "C02": dict(cat="proof", tech="Coq proof of the chunking law over the abstract machine + split-exhaustive correspondence with the gcc-built parser",
    text="Theorems (Props/C02.v, for every well-formed machine and every data semantics): one feed call on c1++c2 equals a call on c1 followed, if it ran off the end, by a call on c2 from the struct it left; any composition of the input into chunks gives the outcome of the single call (code, state, data, consumed count, events). The tie to the emitted C is a correspondence run under all 2^(n-1) splits of short inputs and adversarial splits of long ones: the binary must give the same chunk-independent observation (hooks with snapshots, yields/finishes with absolute offsets, final code/outputs) under every split and agree call by call with the extracted model.",
    note="The theorem is about Machine.Sem.feed (the model). Its tie to the C text is sampled (programs, option sets, inputs) though exhaustive in splits for short inputs. Trusted: gcc, exporter, driver generator, extraction.",
    ref="5 C02"),
 "C10": dict(cat="proof", tech="Coq proofs of the protocol over the abstract machine + per-machine certificates + call-history correspondence with the gcc-built parser",
    text="Theorems (Props/C10.v): OK only after the whole chunk (for machines carrying the computed certificate no_stuck_ok), consumed <= chunk length, the fail state is absorbing for feed and end. Every compiled machine is certified; the gcc-built parser (indirect start pointer) is driven through call histories continuing after FAIL/DONE/finish codes and after each yield, its codes, *start movements, outputs and hooks must agree call by call with the extracted model, and the protocol predicates (FAIL absorbing, OK consumes all, cursor inside the chunk) are evaluated on the binary's own trace.",
    note="Cursor positions on FAIL/DONE/yield are carried by the model's `adv` flag and checked through the call-by-call correspondence; strict-done postponement is covered by the same correspondence, not by a separate theorem. Sampled programs/histories.",
    ref="5 C10"),
 "C03": dict(cat="proof", tech="Coq proofs over the concrete store model + per-machine certificate + sanitizer-build correspondence",
    text="Theorems (Props/C03.v): the capacity invariant (array size, counter <= effective size, integers in their C range) holds after start() and after ANY history of feed/end calls on any input; behind the buffer-full test an append is defined and writes inside the array; the test fires exactly at the effective size; a constant is executable iff it fits; the unsigned type the regenerated _integer_containing selects for a bound holds that bound. Every compiled machine is certified appends_guarded; exported constants, defaults and the declared counter/state types are checked statically (incl. capacities 255..65537 and constants of every length around the capacity); ASan+UBSan+LSan builds under all five storage modes are driven over chunked, overflowing inputs, compared call by call with the model, and the length/terminator invariants are checked after every call.",
    note="Partial with respect to the real heap (malloc failure, allocator behaviour). The sanitizers are the oracle for the binary's undefined behaviour; intra-struct overruns are invisible to ASan and are covered by the static checks and the comparison with the model. Unsafe indexing is excluded (out-of-range is the caller's responsibility).",
    ref="5 C03"),
 "C04": dict(cat="translation_validation", tech="Coq-verified no-spin certificate checker on exported machines (vm_compute certificates + extracted checker)",
    text="Every machine the current compiler accepts (corpus + generated programs, several -O levels) is exported structurally and must pass NoSpin.nospin_cert; its Coq soundness theorems (no_spin_step, no_spin_feed, yield_progress) give termination of every feed/end call within a bound linear in the chunk, for every state, symbol and data value under every data semantics, and no endless run of yields without progress. A rejected certificate yields a (state, symbol) cycle and an input reaching it.",
    note="Program quantifier sampled. Trusted: Coq kernel; harness/export.py; Machine/Sem.v as the reading of the emitted C control skeleton (tied by the C06 correspondence); extraction+OCaml for the volume tier (a sample is re-certified inside Coq).",
    ref="5 C04"),
 "C05": dict(cat="translation_validation", tech="Coq-verified strict and one-step-buffered bisimulation certificate checkers between machines compiled at different levels/flags",
    text="For each program the machine compiled with all optimisations off is compared with the machines compiled at -O1/-O2 and with each single non-short-circuit flag by a strict bisimulation certificate (Bisim.dfa_equiv_cert: identical sequences of primitives, tests, yields, finishes, consumed-byte markers and results on all inputs, every data semantics) and with the machines compiled at -O3 / -fshortcircuit-fallthroughs by a one-step-buffered certificate (BSearch.dfa_slack_cert, soundness BBisim.bbisim_sound): the short-circuited machine may be ahead by byte-independent primitives / test outcomes and by one early return, which the lazy machine must perform first thing on the next symbol; un-timed traces agree on all inputs for every data semantics in which the flagged items really are byte-independent. Binaries built at -O0/-O2/-O3 under a random representation option set are additionally run differentially (hooks with snapshots, yield/finish codes, final outputs).",
    note="Program quantifier sampled. `s = \"\"` and `delete s` are identified across -fuse-delete-for-empty-string. The byte-independence flags of primitives come from the exporter (expression mentions $last / is an append). One genuine defect is listed as a known finding (a yield on the transition that completes the program keeps the cursor one byte earlier at -O3). Trusted as for C04.",
    ref="5 C05"),
 "C06": dict(cat="model_checking", tech="exhaustive forced-state single-step and two-byte-chunk correspondence between the gcc-built parser and the extracted Coq model of the exported machine",
    text="C06 is a statement about the tie between emitted text and compiled machine, so it is decided by an exhaustive per-program correspondence: every state index x every byte 0..255 (and end-of-input) x several data contexts is stepped once in the gcc-built binary (state forced) and in the extracted Coq model (CSkel.Run over Machine.Sem, the same executable definitions all control-flow theorems are about), plus two-byte chunks from every state and random chunked runs; result code, new state, consumed count, every output's contents/length/terminator and the hook calls with their snapshots are compared. Coq lemmas (ceval_tree_eval, cfeed_go_feed_go) tie the concrete runner to the generic semantics; store_inv_prim proves the capacity invariant for every primitive.",
    note="Sampled over programs, option sets and data contexts; exhaustive over (state, symbol). gcc and the C semantics of the emitted text are trusted. Steps on which the model says the C behaviour is undefined (overflowing signed arithmetic, reads of indeterminate cells) are skipped and counted.",
    ref="5 C06"),
 "C07": dict(cat="translation_validation", tech="Coq-verified regex-vs-machine certificate checker (Brzozowski derivatives) on exported machines",
    text="For every generated regex (enumerated small surface regexes + random larger ones, text and binary form) the machine the real compiler builds for `parser { /re/; }` is certified against the derivative automaton of the desugared expression by Regex.ReCheck.re_dfa_check, whose soundness theorems (c07_language, c07_run, c07_mismatch_is_first_dead_byte, c07_first_dead_byte_is_reported, c07_end_of_input_not_matched) hold for ALL byte strings; deriv/nullable/void/desugar correctness are proved once. A failed certificate gives a shortest distinguishing string, confirmed on the gcc-built parser.",
    note="Regex quantifier sampled/enumerated up to a size bound; strings covered by theorem. Trusted: Regex/Surface.v's reading of the dialect (lang), exporter, Machine/Sem.v; extraction for volume with a sample certified in Coq. Two genuine defects are listed as known findings (complementary inverted classes; empty byte class leaves a dead state).",
    ref="5 C07"),
 "C12": dict(cat="translation_validation", tech="verified bisimulation certificates between option sets + differential runs of gcc-built binaries",
    text="(1) For each program the machines compiled under the reference options and under sampled representation-option sets (string storage modes, u8 strings, hook placement, user pointer, packed enums, guards, pointer mode, zero-length support, unsafe indexing, range-collapse thresholds) must carry a strict bisimulation certificate (Bisim.dfa_equiv_cert: equal behaviour on all inputs under every data semantics). (2) The gcc-built binaries of the same program under those option sets are run on the same chunked inputs (incl. bytes adjacent to range ends) and must produce identical result codes, output contents/lengths/terminators and hook calls with snapshots.",
    note="Relational property: the C-level part is differential by nature (sampled inputs, programs, option sets). Trusted: gcc, exporter, driver generator. Allocation failure is out of scope.",
    ref="5 C12"),
 "C17": dict(cat="proof", tech="Coq proofs over the abstract machine + per-machine certificate + end-of-input sweep of the gcc-built parser",
    text="Theorems (Props/C17.v): what a data byte selects is independent of End marks (`end` never matches data); in machines carrying the computed certificate end_safe, end-of-input never selects a consuming data transition (wildcards and inverted sets never match end-of-input); end() with nothing to do returns DONE iff the state is accepting, FAIL otherwise; end() after a failure returns FAIL. Every compiled machine is certified; with -feof-support the end-of-input move of EVERY state of the gcc-built parser is compared with the model under several data contexts, plus runs that finish with end() (also after truncated inputs).",
    note="That the machine is the right one for the program's `end` patterns belongs to C01's reference semantics; C17 decides End/data separation and the contract of the emitted end(). Sampled programs; exhaustive over states for the end move.",
    ref="5 C17"),
 "C19": dict(cat="proof", tech="Coq proofs over a hand model of flag resolution applied to the regenerated flag tables + exhaustive correspondence with load_commandline_flags",
    text="coq/Gen/GFlags.v (flag table, level table, names) is regenerated from the current nmfu module on every run; over it Props/C19.v proves: order independence of resolution for override lists without duplicates (a real inductive proof, for any table satisfying the computed side condition meta_ok), implied flags on, exclusive flags never both on, explicit conflicts are errors, levels cumulative, overrides beat the level (finite facts by reflection over all 3^11 x 4 assignments, lifted to every order through the order theorem), and the tokeniser theorems (unknown flags/options, missing values, malformed -O / --flag values / dump targets are errors; run_cmdline never crashes). The hand model is compared with the real load_commandline_flags exhaustively on the 708 588 assignments (extracted OCaml) and on sampled permutations and malformed command lines (inside Coq).",
    note="Trusted: translator/tables2coq.py, the hand model's tie (exhaustive on the finite domain, sampled beyond), extraction for the exhaustive comparison (a sample re-evaluated by the kernel). Accepted spellings such as -O02 or --O 2 are recorded, not judged.",
    ref="5 C19"),
 "C13": dict(cat="translation_validation", tech="Coq-verified strict bisimulation certificates between each macro program and its textual expansion",
    text="Each generated program (composable macro templates covering all eight argument kinds, nesting, forwarding of arguments, parameters named like global entities and called with rotated names) is printed twice from one AST: with macros and hand-inlined by textual substitution (the specification). Both are compiled by the real compiler; the verdicts must agree and accepted pairs must carry a strict bisimulation certificate (Bisim.dfa_equiv_cert: identical behaviour on all inputs under every data semantics); a sample is certified inside Coq. Ill-kinded and wrong-arity calls must be diagnosed.",
    note="Program quantifier sampled. The expansion function gen.subst_stmts is the trusted specification of a macro call. One genuine defect is a known finding (a late-bound argument passed on to a same-named parameter recurses).",
    ref="5 C13"),
 "C20": dict(cat="translation_validation", tech="Coq-verified strict bisimulation certificates between compilations of the same input under different process histories, heap layouts and hash seeds",
    text="Each program (corpus, generated, greedy-case with near-ties, macro programs) is compiled alone in a fresh process, in-order / reversed / shuffled after other programs, twice in a row, under different PYTHONHASHSEEDs and heap perturbations. Verdicts must agree, and every resulting machine must carry a strict bisimulation certificate against the reference compilation, so that each comparison holds for all inputs.",
    note="Partial: the quantifier over histories / layouts / seeds is sampled; CPython's process state cannot be modelled in Coq. Each machine comparison is a theorem (bisim_strict_sound).",
    ref="5 C20"),
 "C15": dict(cat="proof", tech="Coq proof over translator-regenerated model (pylite2coq) + CPython correspondence",
    text="Universal theorems (all strings, all digit strings, all 256 bytes) about the CURRENT bodies of _convert_string, _convert_char_const, _convert_int, _create_casei_from and _escape_string, which a fail-closed translator regenerates from /repo/nmfu.py into Gallina on every run; the translated reading is compared with CPython on ~2 700 enumerated inputs per run. A broken proof triggers a search (spec evaluated against the regenerated functions inside Coq, then Python/gcc replay) for a concrete literal.",
    note="Trusted: Coq kernel (vm_compute), translator/pylite2coq.py, Base/PyLite.v's reading of Python, Lit/LitSpec.v (spelling relation, C string-literal lexer). _convert_binary_string is tied by correspondence only; lark tokenisation and gcc are modelled, not verified.",
    ref="5 C15"),
}
REASONS_TODO = "check not built yet in this revision (DESIGN.md section 9 staging); no claim is made"
m = {
 "version": 1,
 "setup_cmd": "bash tools/setup.sh",
 "hooks": {"guard": "NMFU_VERIF", "enable": "environment variable NMFU_VERIF=1 (set by harness/check.py); hooks are no-ops otherwise",
           "baseline_off_cmd": "cd /repo && env -u NMFU_VERIF /venv/bin/python -m pytest -ra -q -p no:cacheprovider --timeout=900 --continue-on-collection-errors",
           "source_commits": ["c46f622"], "add_only": True},
 "engines": [{"name": "coq", "path": "coq/", "serves_properties": sorted(CLAIMED), "kind_free_text": "Coq 8.16.1 development (models, specifications, soundness theorems, per-run certificates)"},
             {"name": "harness", "path": "harness/", "serves_properties": sorted(CLAIMED), "kind_free_text": "Python driver: regeneration, export, correspondence, failing-input search, evidence"}],
 "checks": [], "not_applicable": [],
 "notes": "See DESIGN.md. Every check: python3 harness/check.py --property Cxx --tier quick|thorough; honours VERIF_SEED.",
}
for pid in ALL:
    if pid in CLAIMED:
        c = CLAIMED[pid]
        m["checks"].append({
            "property_id": pid,
            "quick_cmd": "python3 harness/check.py --property %s --tier quick" % pid,
            "thorough_cmd": "python3 harness/check.py --property %s --tier thorough" % pid,
            "evidence_file": "evidence/%s.json" % pid,
            "replay_cmd_template": "python3 harness/check.py --property %s --replay {path}" % pid,
            "engine": "coq",
            "level_claimed": {"category": c["cat"], "text": c["text"], "design_ref": "DESIGN.md section " + c["ref"]},
            "level_note": c["note"], "technique": c["tech"]})
    else:
        m["not_applicable"].append({"property_id": pid, "reason": REASONS_TODO})
json.dump(m, open(os.path.join(V, "MANIFEST.json"), "w"), indent=1)
print("claimed:", sorted(CLAIMED))
