#!/usr/bin/env python3
"""Apply every seeded change under /verif/seeded/ to a scratch worktree of /repo (never to /repo itself), run the quick check
of its own property (and of the extra properties given on the command line as ID=prop,prop) against it with NMFU_REPO,
and record which checks report a violation.  Writes /verif/seeded/RESULTS.json.  The scratch worktree is removed at the end.
usage: run_seeds.py [seed names...]"""
import sys, os, subprocess, json, re, time
VERIF = "/verif"
WT = "/tmp/seedrun_wt"
def sh(cmd, **kw):
    return subprocess.run(cmd, shell=isinstance(cmd, str), stdout=subprocess.PIPE, stderr=subprocess.STDOUT, text=True, **kw)
names = [a for a in sys.argv[1:] if "=" not in a] or sorted(d for d in os.listdir(os.path.join(VERIF, "seeded")) if os.path.isdir(os.path.join(VERIF, "seeded", d)))
extra = dict(a.split("=") for a in sys.argv[1:] if "=" in a)
sh(["git", "-C", "/repo", "worktree", "remove", "--force", WT])
r = sh(["git", "-C", "/repo", "worktree", "add", "--detach", WT, "HEAD"]); assert r.returncode == 0, r.stdout
out_path = os.path.join(VERIF, "seeded", "RESULTS.json")
# the checks rewrite evidence/<id>.json on every run: keep the evidence of the unchanged tree and put it back at the end
import shutil
evidence_backup = "/tmp/seedrun_evidence"
shutil.rmtree(evidence_backup, ignore_errors=True)
shutil.copytree(os.path.join(VERIF, "evidence"), evidence_backup)
results = json.load(open(out_path)) if os.path.exists(out_path) else {}
try:
    for n in names:
        patch = os.path.join(VERIF, "seeded", n, "patch.diff")
        sh(["git", "-C", WT, "checkout", "--", "."])
        a = sh(["git", "-C", WT, "apply", patch])
        if a.returncode != 0:
            results[n] = {"applies": False, "output": a.stdout[-300:]}
            print(n, "PATCH DOES NOT APPLY"); continue
        props = [n.split("_")[0]] + [p for p in extra.get(n, "").split(",") if p]
        rec = {"applies": True, "base": sh(["git", "-C", "/repo", "rev-parse", "--short", "HEAD"]).stdout.strip(), "checks": {}}
        for p in props:
            t0 = time.time()
            c = sh(["python3", "harness/check.py", "--property", p, "--tier", "quick"], cwd=VERIF, env=dict(os.environ, NMFU_REPO=WT, VERIF_SEED="1"), timeout=3600)
            viol = [l for l in c.stdout.splitlines() if l.startswith("VIOLATION")]
            first = ""
            m = re.search(r"^VIOLATION.*\n\s+\((.*)", c.stdout, re.M)
            if m: first = m.group(1)[:200]
            rec["checks"][p] = {"exit": c.returncode, "violations": len(viol), "first": first, "seconds": round(time.time() - t0, 1)}
            print(n, p, "exit", c.returncode, "violations", len(viol), first[:100], flush=True)
        results[n] = rec
        json.dump(results, open(out_path, "w"), indent=1)
finally:
    sh(["git", "-C", "/repo", "worktree", "remove", "--force", WT])
    for f in os.listdir(evidence_backup):
        shutil.copy(os.path.join(evidence_backup, f), os.path.join(VERIF, "evidence", f))
    shutil.rmtree(evidence_backup, ignore_errors=True)
    # coq/Gen/*.v were regenerated from the changed trees: regenerate them from /repo
    sh(["bash", os.path.join(VERIF, "tools", "setup.sh")])
