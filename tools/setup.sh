#!/bin/bash
# Builds the framework from files on disk only (offline): Coq development + OCaml extraction.
set -e
cd "$(dirname "$0")/.."
mkdir -p build evidence replays coq/Gen
export PYTHONPATH=/repo PYTHONHASHSEED=0
# Gen/*.v are regenerated from /repo on every check run; generate once so that the project builds
/venv/bin/python - <<'PY'
import sys
sys.path.insert(0, "harness"); sys.path.insert(0, "translator")
import importlib
for mod in ("props.c15", "props.c19", "props.c14", "props.c11"):
    try:
        importlib.import_module(mod)
    except Exception as e:
        print("skip", mod, e); continue
    m = importlib.import_module(mod)
    class C:  # minimal ctx
        def log(self, *a): print(*a)
    if not hasattr(m, "regenerate"):
        print("skip", mod, "(no regenerate)"); continue
    err = m.regenerate(C())
    if err: print("WARNING: regeneration failed:", err)
PY
cd coq
coq_makefile -f _CoqProject -o Makefile > /dev/null
timeout 3000 make -j16 2>&1 | grep -v "^Closed under\|^     [=:]\|^COQC\|^COQDEP" || true
test -f Props/C15.vo
cd ..
# extracted checkers (OCaml)
NMFU_VERIF=1 PYTHONPATH=/repo:harness /venv/bin/python -c "
import sys; sys.path.insert(0,'harness')
import mach, refsem
e = mach.ensure_machk()
print('machk:', e or 'ok')
e2 = refsem.ensure_refk()
print('refk:', e2 or 'ok')
sys.exit(1 if (e or e2) else 0)"
echo "setup done"
