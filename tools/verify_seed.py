#!/usr/bin/env python3
"""Confirm a seeded change in a scratch worktree of /repo and store it under /verif/seeded/<name>/.
usage: verify_seed.py <name> <dir with patch.diff, demo.py|demo.sh, meta.json>
Checks: demo exits 0 on HEAD; patch applies; full test suite passes with the patch; demo exits non-zero with it."""
import sys, os, subprocess, json, shutil, re
name, src = sys.argv[1], sys.argv[2]
wt = "/tmp/seedchk_" + name
def run(cmd, **kw):
    return subprocess.run(cmd, shell=isinstance(cmd, str), stdout=subprocess.PIPE, stderr=subprocess.STDOUT, text=True, **kw)
subprocess.run(["git", "-C", "/repo", "worktree", "remove", "--force", wt], stdout=subprocess.DEVNULL, stderr=subprocess.DEVNULL)
r = run(["git", "-C", "/repo", "worktree", "add", "--detach", wt, "HEAD"]); assert r.returncode == 0, r.stdout
try:
    demo = os.path.join(src, "demo.py") if os.path.exists(os.path.join(src, "demo.py")) else os.path.join(src, "demo.sh")
    cmd = (["/venv/bin/python", demo, wt] if demo.endswith(".py") else ["bash", demo, wt])
    env = dict(os.environ, PYTHONPATH=wt)
    r0 = run(cmd, env=env, timeout=600)
    ra = run(["git", "-C", wt, "apply", os.path.join(src, "patch.diff")])
    if ra.returncode != 0:
        print("PATCH DOES NOT APPLY:", ra.stdout); sys.exit(2)
    rt = run("cd %s && PYTHONPATH=%s /venv/bin/python -m pytest -q -p no:cacheprovider --timeout=900 -n 8 tests 2>&1 | tail -3" % (wt, wt), timeout=1200)
    m = re.search(r"(\d+) passed", rt.stdout)
    failed = re.search(r"(\d+) failed", rt.stdout)
    r1 = run(cmd, env=env, timeout=600)
    ok = r0.returncode == 0 and r1.returncode != 0 and m and int(m.group(1)) == 138 and not failed
    print("demo on HEAD rc=%d, tests: %s, demo with patch rc=%d -> %s" % (r0.returncode, rt.stdout.strip().splitlines()[-1], r1.returncode, "CONFIRMED" if ok else "NOT CONFIRMED"))
    if not ok:
        print(r0.stdout[-800:]); print(r1.stdout[-800:]); sys.exit(1)
    dst = os.path.join("/verif/seeded", name)
    os.makedirs(dst, exist_ok=True)
    shutil.copy(os.path.join(src, "patch.diff"), dst)
    shutil.copy(demo, dst)
    meta = json.load(open(os.path.join(src, "meta.json"))) if os.path.exists(os.path.join(src, "meta.json")) else {}
    meta["confirmed"] = {"base_commit": run(["git", "-C", "/repo", "rev-parse", "HEAD"]).stdout.strip(),
                         "demo_rc_without_patch": r0.returncode, "demo_rc_with_patch": r1.returncode,
                         "tests_with_patch": rt.stdout.strip().splitlines()[-1],
                         "ran": ["git worktree add /tmp/seedchk_%s HEAD" % name, " ".join(cmd), "git apply patch.diff", "pytest -n 8 tests", " ".join(cmd)],
                         "demo_output_with_patch": r1.stdout[-600:]}
    json.dump(meta, open(os.path.join(dst, "meta.json"), "w"), indent=1)
finally:
    subprocess.run(["git", "-C", "/repo", "worktree", "remove", "--force", wt], stdout=subprocess.DEVNULL, stderr=subprocess.DEVNULL)
