"""The `grammar` string of /repo/nmfu.py -> Gallina data (coq/Gen/GGrammar.v).  Tie 1 for C14.

What is read (by rule NAME, never by line number), starting from `_math_expr`:

  g_layers : list (list binop * bool)
      the binary-operator layers from the loosest (`disjunction_expr`) to the tightest (`mul_expr`);
      for each rule  X: Y (OP Y)*  -> (operators OP stands for, true)      left-associative chain
                     X: Y (OP Y)?  -> (operators OP stands for, false)     single, non-associative
      the operand Y of every layer must be the next layer's rule (a linear nesting), the last one's
      operand is the unary rule.
  g_unary_ops            : the prefix operators of the unary rule ("!" and "-")
  g_unary_arg_is_atom    : true when their operand is the atom rule (so `!-x`, `- -x` are not derivable)
  g_atom_has_paren       : the atom rule has  "(" _math_expr ")"
  g_atom_has_index       : the atom rule has  IDENTIFIER "[" _math_expr "]"
  g_int_types            : CodegenCtx._integer_containing evaluated on every declarable width x signedness
                           (the C type of an `int{size w, signed|unsigned}` output), as cty constructors

Operator terminals defined by regular expressions (SUM_OP, MUL_OP, CMP_OP) are expanded by matching every
string of length <= 2 over the operator alphabet against them.  Fail-closed: anything that does not have
this shape raises Unsupported (reported by the check as a broken tie).
"""
import ast, re, itertools, importlib, sys


class Unsupported(Exception):
    pass


OPS = {"||": "OLOr", "&&": "OLAnd", "|": "OOr", "^": "OXor", "&": "OAnd", "==": "OEq", "!=": "ONe", "<": "OLt", ">": "OGt",
       "<=": "OLe", ">=": "OGe", "<<": "OShl", ">>": "OShr", "+": "OAdd", "-": "OSub", "*": "OMul", "/": "ODiv", "%": "OMod"}
ALPHABET = "+-*/%<>=!&|^~?:"
CTYPES = {"bool": "TBool", "int8_t": "TI8", "uint8_t": "TU8", "int16_t": "TI16", "uint16_t": "TU16", "int32_t": "TI32", "uint32_t": "TU32",
          "int64_t": "TI64", "uint64_t": "TU64", "intmax_t": "TI64", "uintmax_t": "TU64"}


def grammar_text(path):
    tree = ast.parse(open(path).read())
    for node in tree.body:
        if isinstance(node, ast.Assign) and len(node.targets) == 1 and isinstance(node.targets[0], ast.Name) and node.targets[0].id == "grammar":
            if isinstance(node.value, ast.Constant) and isinstance(node.value.value, str):
                return node.value.value
    raise Unsupported("no module-level string assignment `grammar = ...`")


def rules_of(text):
    """rule/terminal name -> body text (continuation lines starting with `|` joined)"""
    rules, cur = {}, None
    for raw in text.splitlines():
        line = raw.rstrip()
        if not line.strip() or line.strip().startswith("%") or line.strip().startswith("//"):
            continue
        m = re.match(r"^\??([A-Za-z_][A-Za-z_0-9]*)(\.-?\d+)?\s*:\s*(.*)$", line)
        if m and not line[0].isspace():
            cur = m.group(1)
            rules[cur] = m.group(3).strip()
        elif cur is not None and line.strip().startswith("|"):
            rules[cur] += " " + line.strip()
        else:
            cur = None
    return rules


def alternatives(body):
    """split a rule body on top-level `|` (outside quotes, parentheses, regex slashes)"""
    alts, cur, depth, q = [], "", 0, None
    i = 0
    while i < len(body):
        c = body[i]
        if q:
            cur += c
            if c == "\\" and i + 1 < len(body):
                cur += body[i + 1]; i += 1
            elif c == q:
                q = None
        elif c in "\"/":
            q = c; cur += c
        elif c in "([":
            depth += 1; cur += c
        elif c in ")]":
            depth -= 1; cur += c
        elif c == "|" and depth == 0:
            alts.append(cur.strip()); cur = ""
        else:
            cur += c
        i += 1
    alts.append(cur.strip())
    return [re.sub(r"\s*->\s*\w+\s*$", "", a).strip() for a in alts]


def terminal_strings(rules, name):
    """the operator strings a terminal (or a quoted literal) stands for"""
    if name.startswith('"') and name.endswith('"'):
        return [name[1:-1]]
    if name not in rules:
        raise Unsupported("operator terminal %s is not defined" % name)
    out = []
    pats = []
    for alt in alternatives(rules[name]):
        if alt.startswith('"') and alt.endswith('"'):
            out.append(alt[1:-1])
        elif alt.startswith("/") and alt.endswith("/"):
            pats.append(alt[1:-1])
        else:
            raise Unsupported("terminal %s: alternative %r is neither a string nor a regex" % (name, alt))
    for pat in pats:
        try:
            rx = re.compile(pat)
        except re.error as e:
            raise Unsupported("terminal %s: %s" % (name, e))
        for n in (1, 2, 3):
            for t in itertools.product(ALPHABET, repeat=n):
                s = "".join(t)
                if rx.fullmatch(s) and s not in out:
                    out.append(s)
    return out


def layers(text):
    rules = rules_of(text)
    if "_math_expr" not in rules:
        raise Unsupported("rule _math_expr not found")
    cur = rules["_math_expr"].strip()
    if not re.fullmatch(r"\w+", cur):
        raise Unsupported("_math_expr is not a single rule reference: %r" % cur)
    out, names, seen = [], [], set()
    while True:
        if cur in seen or cur not in rules:
            raise Unsupported("layer rule %s missing or cyclic" % cur)
        seen.add(cur)
        body = rules[cur]
        m = re.fullmatch(r"(\w+)\s*\(\s*(\"[^\"]+\"|\w+)\s+(\w+)\s*\)\s*([*?])", body)
        if not m:
            break
        operand, opname, operand2, rep = m.groups()
        if operand != operand2:
            raise Unsupported("rule %s: operands differ (%s / %s)" % (cur, operand, operand2))
        ops = terminal_strings(rules, opname)
        for o in ops:
            if o not in OPS:
                raise Unsupported("rule %s: operator %r is not one of the modelled binary operators" % (cur, o))
        out.append((cur, [OPS[o] for o in ops], rep == "*", ops))
        names.append(cur)
        cur = operand
    # cur is now the unary rule
    unary_rule = cur
    alts = alternatives(rules[unary_rule])
    un_ops, arg_rules, atom_rule = [], set(), None
    for a in alts:
        m = re.fullmatch(r"\"([^\"]+)\"\s+(\w+)", a)
        if m:
            if m.group(1) not in ("!", "-"):
                raise Unsupported("unary rule %s: unknown prefix operator %r" % (unary_rule, m.group(1)))
            un_ops.append("UNot" if m.group(1) == "!" else "UNeg")
            arg_rules.add(m.group(2))
        elif re.fullmatch(r"\w+", a):
            if atom_rule is not None:
                raise Unsupported("unary rule %s has two operand-only alternatives" % unary_rule)
            atom_rule = a
        else:
            raise Unsupported("unary rule %s: alternative %r not understood" % (unary_rule, a))
    if atom_rule is None or atom_rule not in rules:
        raise Unsupported("unary rule %s has no atom alternative" % unary_rule)
    if len(arg_rules) > 1 or (arg_rules and not arg_rules <= {atom_rule, unary_rule}):
        raise Unsupported("unary operands are %r" % sorted(arg_rules))
    arg_is_atom = arg_rules == {atom_rule} or not arg_rules
    atom_alts = alternatives(rules[atom_rule])
    has_paren = any(re.fullmatch(r"\"\(\"\s+_math_expr\s+\"\)\"", a) for a in atom_alts)
    has_index = any(re.fullmatch(r"IDENTIFIER\s+\"\[\"\s+_math_expr\s+\"\]\"", a) for a in atom_alts)
    known = [r"RADIX_NUMBER", r"IDENTIFIER", r"IDENTIFIER\s+\"\.len\"", r"IDENTIFIER\s+\"\[\"\s+_math_expr\s+\"\]\"", r"CHAR_CONSTANT", r"BOOL_CONST",
             r"\"\$\"\s+IDENTIFIER", r"\"\(\"\s+_math_expr\s+\"\)\""]
    for a in atom_alts:
        if not any(re.fullmatch(k, a) for k in known):
            raise Unsupported("atom rule %s: alternative %r is not modelled" % (atom_rule, a))
    return {"layers": out, "unary_rule": unary_rule, "unary_ops": un_ops, "arg_is_atom": arg_is_atom, "atom_rule": atom_rule,
            "has_paren": has_paren, "has_index": has_index, "atom_alternatives": atom_alts}


def int_types(nmfu=None):
    if nmfu is None:
        nmfu = importlib.import_module("nmfu")
    out = []
    f = nmfu.CodegenCtx._integer_containing
    for w in (None, 1, 2, 4, 8):
        for sg in (True, False):
            try:
                t = f(None, None, sg, w)
            except Exception as e:
                raise Unsupported("_integer_containing(width=%r, signed=%r) raises %r" % (w, sg, e))
            if t not in CTYPES:
                raise Unsupported("_integer_containing(width=%r, signed=%r) = %r is not a modelled C type" % (w, sg, t))
            out.append((w, sg, t))
    return out


def emit(path, nmfu=None):
    g = layers(grammar_text(path))
    its = int_types(nmfu)
    b = lambda x: "true" if x else "false"
    L = ["(** GENERATED by translator/grammar2coq.py from the `grammar` string of nmfu.py - do not edit. *)",
         "From Coq Require Import ZArith List Bool.", "Import ListNotations.", "From NV Require Import Expr.CArith Expr.CParse.", "",
         "(* rules, loosest first: %s ; unary rule %s ; atom rule %s *)" % (", ".join(x[0] for x in g["layers"]), g["unary_rule"], g["atom_rule"]),
         "Definition g_layers : list (list binop * bool) :=",
         "  [" + ";\n   ".join("([%s], %s)" % ("; ".join(ops), b(chain)) for _, ops, chain, _ in g["layers"]) + "].",
         "Definition g_unary_ops : list unop := [%s]." % "; ".join(g["unary_ops"]),
         "Definition g_unary_arg_is_atom : bool := %s." % b(g["arg_is_atom"]),
         "Definition g_atom_has_paren : bool := %s." % b(g["has_paren"]),
         "Definition g_atom_has_index : bool := %s." % b(g["has_index"]),
         "(* (byte width or 0 for `int` without size, signed, C type chosen by CodegenCtx._integer_containing) *)",
         "Definition g_int_types : list (Z * bool * cty) :=",
         "  [" + "; ".join("(%d, %s, %s)" % (w or 0, b(sg), CTYPES[t]) for w, sg, t in its) + "]."]
    return "\n".join(L) + "\n", g, its


if __name__ == "__main__":
    sys.stdout.write(emit(sys.argv[1] if len(sys.argv) > 1 else "/repo/nmfu.py")[0])
