"""header2coq - Tie 1 for C11: which declaration is emitted under which flags.

Reads CodegenCtx.generate_header / generate_source / _generate_state_object_decl / _generate_out_enum of the CURRENT
/repo/nmfu.py with Python's `ast` and produces a table

    header_items, source_items : list (guard * item)

guard  = the conjunction of literals under which the `X.add(...)` statement is executed: flag literals
         (`ProgramData.do(ProgramFlag.F)` and its negation, F by member name) and data literals (any other `if` test,
         kept as text: the theorems quantify over every truth value of those);
item   = classification of the emitted line from its f-string skeleton ({pn} = self.program_name, {PN} = its upper(),
         {hook}/{fc}/{yc} = the loop variable of `for _ in self.hooks / self.finish_codes / self.yield_codes`).

Fail-closed: any statement shape, loop, call or declaration-like line that is not understood raises Unsupported.
The same table is returned as Python data (translate()) so that the harness can evaluate it against real headers.
"""
import ast, re, sys


class Unsupported(Exception):
    pass


HOOKS, FINISH, YIELD = "hooks", "finish_codes", "yield_codes"
LOOPVAR_PLACEHOLDER = {HOOKS: "{hook}", FINISH: "{fc}", YIELD: "{yc}"}


def _methods(path):
    tree = ast.parse(open(path).read())
    for node in tree.body:
        if isinstance(node, ast.ClassDef) and node.name == "CodegenCtx":
            return {n.name: n for n in node.body if isinstance(n, ast.FunctionDef)}
    raise Unsupported("class CodegenCtx not found")


def _is_self_attr(e, name=None):
    return isinstance(e, ast.Attribute) and isinstance(e.value, ast.Name) and e.value.id == "self" and (name is None or e.attr == name)


def _flag_literal(test):
    """`ProgramData.do(ProgramFlag.X)` -> ("X", True); `not ...` -> ("X", False); otherwise None"""
    pol = True
    while isinstance(test, ast.UnaryOp) and isinstance(test.op, ast.Not):
        pol = not pol
        test = test.operand
    if (isinstance(test, ast.Call) and isinstance(test.func, ast.Attribute) and test.func.attr == "do"
            and isinstance(test.func.value, ast.Name) and test.func.value.id == "ProgramData" and len(test.args) == 1 and not test.keywords):
        a = test.args[0]
        if isinstance(a, ast.Attribute) and isinstance(a.value, ast.Name) and a.value.id == "ProgramFlag":
            return (a.attr, pol)
    return None


def _mentions_flags(node):
    for n in ast.walk(node):
        if isinstance(n, ast.Name) and n.id in ("ProgramFlag", "ProgramData"):
            return True
    return False


def _literals(test):
    """test -> list of literals (a conjunction) for the true branch, or None when it is not a conjunction of literals"""
    fl = _flag_literal(test)
    if fl:
        return [("flag",) + fl]
    if isinstance(test, ast.BoolOp) and isinstance(test.op, ast.And):
        out = []
        for v in test.values:
            l = _literals(v)
            if l is None:
                return None
            out += l
        return out
    if _mentions_flags(test):
        raise Unsupported("condition mixes flags with other tests: " + ast.unparse(test))
    return [("data", ast.unparse(test), True)]


def _negate(lits, test):
    if len(lits) == 1:
        k = lits[0]
        return [(k[0], k[1], not k[2])]
    # negation of a conjunction is not a conjunction
    raise Unsupported("else branch of a conjunctive condition: " + ast.unparse(test))


class Walker:
    def __init__(self, methods, mode):
        self.methods = methods
        self.mode = mode            # "header" | "source"
        self.items = []             # dict(guard, loops, skeleton)
        self.depth = 0

    # ---- expressions -> list of (extra guard literals, skeleton text) ----
    def skel(self, e, env):
        if isinstance(e, ast.Constant) and isinstance(e.value, str):
            return [([], e.value)]
        if isinstance(e, ast.JoinedStr):
            alts = [([], "")]
            for part in e.values:
                if isinstance(part, ast.Constant):
                    sub = [([], part.value)]
                elif isinstance(part, ast.FormattedValue):
                    if part.format_spec is not None or part.conversion != -1:
                        raise Unsupported("format spec in f-string: " + ast.unparse(e))
                    sub = self.skel_value(part.value, env)
                else:
                    raise Unsupported("f-string part")
                alts = [(g1 + g2, t1 + t2) for g1, t1 in alts for g2, t2 in sub]
            return alts
        if isinstance(e, ast.BinOp) and isinstance(e.op, ast.Add):
            return [(g1 + g2, t1 + t2) for g1, t1 in self.skel(e.left, env) for g2, t2 in self.skel(e.right, env)]
        if isinstance(e, ast.BinOp) and isinstance(e.op, ast.Mult):
            return [([], "{rep}")]
        if (isinstance(e, ast.Call) and isinstance(e.func, ast.Attribute) and e.func.attr == "format"
                and isinstance(e.func.value, ast.Constant) and isinstance(e.func.value.value, str) and not e.keywords
                and not any(_mentions_flags(a) for a in e.args)):
            return [([], re.sub(r"\{[^{}]*\}", "{data:format}", e.func.value.value))]
        return self.skel_value(e, env)

    def skel_value(self, v, env):
        if _is_self_attr(v, "program_name"):
            return [([], "{pn}")]
        if (isinstance(v, ast.Call) and isinstance(v.func, ast.Attribute) and v.func.attr == "upper" and not v.args
                and _is_self_attr(v.func.value, "program_name")):
            return [([], "{PN}")]
        if isinstance(v, ast.Name):
            b = env.get(v.id)
            if b is None:
                raise Unsupported("unknown name in emitted text: " + v.id)
            if b[0] == "loopvar":
                return [([], LOOPVAR_PLACEHOLDER.get(b[1], "{data:%s}" % v.id))]
            if b[0] == "cond":
                return b[1]
            raise Unsupported("name %s cannot be emitted" % v.id)
        if isinstance(v, (ast.Attribute, ast.Call, ast.Subscript)):
            if _mentions_flags(v):
                raise Unsupported("flag-dependent expression inside emitted text: " + ast.unparse(v))
            # a value computed from the program (output name, type name, ...): opaque, but never a whole declaration
            return [([], "{data:%s}" % ast.unparse(v))]
        if isinstance(v, ast.Constant):
            return [([], str(v.value))]
        if isinstance(v, (ast.JoinedStr, ast.BinOp)):
            return self.skel(v, env)
        raise Unsupported("expression in emitted text: " + ast.unparse(v))

    # ---- statements ----
    def walk_method(self, name, guard, loops, outer_env=None):
        if name not in self.methods:
            raise Unsupported("method %s not found" % name)
        self.depth += 1
        if self.depth > 4:
            raise Unsupported("call depth")
        fn = self.methods[name]
        env = {}
        for a in fn.args.args[1:]:
            env[a.arg] = ("loopvar", "data")        # arguments are program data (an output declaration)
        body = list(fn.body)
        if body and isinstance(body[0], ast.Expr) and isinstance(body[0].value, ast.Constant):
            body = body[1:]                          # docstring
        self.walk(body, guard, loops, env, top=True)
        self.depth -= 1

    def walk(self, stmts, guard, loops, env, top=False):
        for s in stmts:
            self.stmt(s, guard, loops, env, top)

    def stmt(self, s, guard, loops, env, top):
        if isinstance(s, ast.Assign) and len(s.targets) == 1 and isinstance(s.targets[0], ast.Name):
            tgt, v = s.targets[0].id, s.value
            if isinstance(v, ast.Call) and isinstance(v.func, ast.Name) and v.func.id == "Outputter" and not v.args:
                env[tgt] = ("out",)
                return
            if isinstance(v, ast.IfExp):
                lits = _literals(v.test)
                if lits is None or len(lits) != 1 or lits[0][0] != "flag":
                    raise Unsupported("conditional value not on a single flag: " + ast.unparse(s))
                a, b = self.skel(v.body, env), self.skel(v.orelse, env)
                env[tgt] = ("cond", [([lits[0]] + g, t) for g, t in a] + [(_negate(lits, v.test) + g, t) for g, t in b])
                return
            raise Unsupported("assignment: " + ast.unparse(s))
        if isinstance(s, ast.Return):
            v = s.value
            if (top and isinstance(v, ast.Call) and isinstance(v.func, ast.Attribute) and v.func.attr == "value"
                    and isinstance(v.func.value, ast.Name) and env.get(v.func.value.id) == ("out",)):
                return
            raise Unsupported("return: " + ast.unparse(s))
        if isinstance(s, ast.Expr) and isinstance(s.value, ast.Call) and isinstance(s.value.func, ast.Attribute):
            c = s.value
            if c.func.attr == "add" and isinstance(c.func.value, ast.Name) and env.get(c.func.value.id) == ("out",):
                if c.keywords:
                    raise Unsupported("add with keywords")
                alts = [([], "")]
                for i, a in enumerate(c.args):
                    sub = self.skel(a, env)
                    alts = [(g1 + g2, (t1 + " " if i else t1) + t2) for g1, t1 in alts for g2, t2 in sub]
                for g, t in alts:
                    self.items.append({"guard": guard + g, "loops": list(loops), "skeleton": t})
                return
            raise Unsupported("call statement: " + ast.unparse(s))
        if isinstance(s, ast.AugAssign) and isinstance(s.op, ast.Add) and isinstance(s.target, ast.Name) and env.get(s.target.id) == ("out",):
            v = s.value
            if isinstance(v, ast.Call) and _is_self_attr(v.func) and not v.keywords:
                callee = v.func.attr
                m = re.fullmatch(r"_generate_(\w+)_implementation", callee)
                if m and self.mode == "source":
                    for g, sig in self.signature_of(callee):
                        self.items.append({"guard": guard + g, "loops": list(loops), "skeleton": sig, "define": True})
                    return
                self.walk_method(callee, guard, loops)
                return
            raise Unsupported("+= of " + ast.unparse(v))
        if isinstance(s, ast.If):
            lits = _literals(s.test)
            if lits is None:
                raise Unsupported("condition: " + ast.unparse(s.test))
            self.walk(s.body, guard + lits, loops, dict(env))
            if s.orelse:
                self.walk(s.orelse, guard + _negate(lits, s.test), loops, dict(env))
            return
        if isinstance(s, ast.With):
            if (len(s.items) == 1 and isinstance(s.items[0].context_expr, ast.Name) and env.get(s.items[0].context_expr.id) == ("out",)
                    and isinstance(s.items[0].optional_vars, ast.Name)):
                env2 = dict(env)
                env2[s.items[0].optional_vars.id] = ("out",)
                self.walk(s.body, guard, loops, env2)
                return
            raise Unsupported("with: " + ast.unparse(s.items[0]))
        if isinstance(s, ast.For):
            if s.orelse or not isinstance(s.target, ast.Name):
                raise Unsupported("for shape")
            if _mentions_flags(s.iter):
                raise Unsupported("flag-dependent loop: " + ast.unparse(s.iter))
            kind = None
            for k in (HOOKS, FINISH, YIELD):
                if _is_self_attr(s.iter, k):
                    kind = k
            if kind is None:
                kind = "data:" + ast.unparse(s.iter)
            env2 = dict(env)
            env2[s.target.id] = ("loopvar", kind if kind in LOOPVAR_PLACEHOLDER else "data")
            self.walk(s.body, guard, loops + [kind], env2)
            return
        if isinstance(s, ast.Expr) and isinstance(s.value, ast.Constant):
            return
        raise Unsupported("statement: " + ast.unparse(s)[:120])

    def signature_of(self, callee):
        """first emitted line of a _generate_X_implementation method (the function head), per flag alternative"""
        if callee not in self.methods:
            raise Unsupported("method %s not found" % callee)
        env = {}
        for s in self.methods[callee].body:
            if isinstance(s, ast.Expr) and isinstance(s.value, ast.Constant):
                continue
            if (isinstance(s, ast.Expr) and isinstance(s.value, ast.Call) and isinstance(s.value.func, ast.Attribute)
                    and s.value.func.attr == "add" and isinstance(s.value.func.value, ast.Name) and env.get(s.value.func.value.id) == ("out",)):
                alts = [([], "")]
                for i, a in enumerate(s.value.args):
                    sub = self.skel(a, env)
                    alts = [(g1 + g2, (t1 + " " if i else t1) + t2) for g1, t1 in alts for g2, t2 in sub]
                return alts
            before = len(self.items)
            self.stmt(s, [], [], env, True)
            if len(self.items) != before:
                raise Unsupported("emission before the function head in " + callee)
        raise Unsupported("no function head in " + callee)


# ---------------------------------------------------------------------------
# classification of skeletons
# ---------------------------------------------------------------------------
def normalize_sig(ret, params):
    """return type and parameter types only (names dropped), no blanks around punctuation"""
    def ty(p):
        p = p.strip()
        m = re.fullmatch(r"(.*?)(\b[A-Za-z_]\w*)", p)
        if m and m.group(1).strip() and not m.group(1).strip().endswith(("struct", "enum", "const", "unsigned")):
            p = m.group(1)
        return re.sub(r"\s*\*\s*", "*", re.sub(r"\s+", " ", p)).strip()
    return "%s(%s)" % (re.sub(r"\s*\*\s*", "*", ret.strip()), ",".join(ty(p) for p in params.split(",")) if params.strip() else "")


PROTO = re.compile(r"^(?P<ret>[\w{}]+(?:\s*\*)?)\s+\{pn\}_(?P<name>[\w{}]+?)\s*\((?P<params>[^()]*)\)\s*(?P<tail>;| \{)$")


def classify(it):
    t = it["skeleton"]
    loops = it["loops"]
    in_loop = lambda k: loops == [k]
    if it.get("define"):
        m = PROTO.match(t)
        if not m or m.group("tail") != " {" or "{" in m.group("name"):
            raise Unsupported("function head not understood: " + t)
        return ("Define", m.group("name"), normalize_sig(m.group("ret"), m.group("params")))
    if t == "":
        return ("Blank",)
    if t.startswith("//"):
        return ("Comment",)
    m = PROTO.match(t)
    if m and m.group("tail") == ";":
        name = m.group("name")
        sig = normalize_sig(m.group("ret"), m.group("params"))
        if name == "{hook}_hook" and in_loop(HOOKS):
            return ("HookProto", sig)
        if "{" in name or loops:
            raise Unsupported("prototype with a computed name outside the hook loop: " + t)
        return ("Proto", name, sig)
    if t == "{pn}_hook_t {hook}_hook;" and in_loop(HOOKS):
        return ("HookMember",)
    m = re.fullmatch(r"\{PN\}_(OK|FAIL|DONE),", t)
    if m and not loops:
        return ("Enumerator", m.group(1))
    if t == "{PN}_FINISH_{fc}," and in_loop(FINISH):
        return ("EnumeratorPerFinish",)
    if t == "{PN}_YIELD_{yc}," and in_loop(YIELD):
        return ("EnumeratorPerYield",)
    if re.fullmatch(r"\{PN\}_\w*\{?\w*\}?,", t):
        raise Unsupported("result enumerator not understood: " + t)
    fixed = {"#pragma once": ("PragmaOnce",), "#ifndef {PN}_H": ("GuardOpen",), "#define {PN}_H": ("GuardDefine",), "#endif": ("Endif",),
             "#ifdef __cplusplus": ("CppIfdef",), 'extern "C" {': ("ExternCOpen",), "}": ("CloseBrace",), "};": ("CloseDecl",),
             "struct {pn}_state {": ("StructOpen",), "struct {pn}_state;": ("StructFwd",), "void * userptr;": ("UserPtr",),
             "enum {pn}_result {": ("EnumOpen", False), "enum __attribute__((packed)) {pn}_result {": ("EnumOpen", True),
             "typedef enum {pn}_result {pn}_result_t;": ("ResultTypedef",), "typedef struct {pn}_state {pn}_state_t;": ("StateTypedef",),
             '#include "{pn}.h"': ("IncludeSelf",)}
    if t in fixed and not loops:
        return fixed[t]
    m = re.fullmatch(r"#include <([\w./]+)>", t)
    if m and not loops:
        return ("Include", m.group(1))
    m = re.fullmatch(r"typedef (\w+) \(\*\{pn\}_hook_t\)\(([^()]*)\);", t)
    if m and not loops:
        return ("HookTypedef", normalize_sig(m.group(1), m.group(2)))
    # declarations that depend on the program's outputs (members, counters, enum types of outputs): not part of the function API
    if re.fullmatch(r"enum (__attribute__\(\(packed\)\) )?\{pn\}_out_\{data:[\w.]+\} \{", t) or \
       re.fullmatch(r"typedef enum \{pn\}_out_\{data:[\w.]+\} \{pn\}_out_\{data:[\w.]+\}_t;", t):
        return ("Other", t)
    bare = re.sub(r"\{data:[^{}]*\}", "D", t)
    if t.startswith("#") or "(" in bare or "_hook" in bare or re.search(r"\{PN\}_(OK|FAIL|DONE|FINISH|YIELD)", bare):
        raise Unsupported("declaration-like line not understood: " + t)
    return ("Other", t)


def translate(path):
    methods = _methods(path)
    out = {}
    for mode, entry in (("header", "generate_header"), ("source", "generate_source")):
        w = Walker(methods, mode)
        w.walk_method(entry, [], [])
        rows = []
        for it in w.items:
            rows.append({"guard": it["guard"], "loops": it["loops"], "item": classify(it), "skeleton": it["skeleton"]})
        out[mode] = rows
    return out


# ---------------------------------------------------------------------------
# Coq text
# ---------------------------------------------------------------------------
def cstr(s):
    return '"' + s.replace('"', '""') + '"'


def coq_lit(l):
    if l[0] == "flag":
        return "LFlag %s %s" % (cstr(l[1]), "true" if l[2] else "false")
    return "LData %s %s" % (cstr(l[1]), "true" if l[2] else "false")


def coq_item(i):
    k = i[0]
    if k in ("Proto", "Define"):
        return "%s %s %s" % (k, cstr(i[1]), cstr(i[2]))
    if k in ("HookProto", "HookTypedef", "Include", "Enumerator", "Other"):
        return "%s %s" % (k, cstr(i[1]))
    if k == "EnumOpen":
        return "EnumOpen %s" % ("true" if i[1] else "false")
    return k


def to_coq(table):
    L = ["(** GENERATED by translator/header2coq.py from CodegenCtx.generate_header / generate_source / _generate_state_object_decl",
         "    of the current /repo/nmfu.py - do not edit, never committed. *)",
         "From Coq Require Import String List Bool.", "Import ListNotations.", "Open Scope string_scope.",
         "From NV Require Import Api.ApiSpec.", ""]
    for mode in ("header", "source"):
        L.append("Definition %s_items : list (guard * item) := [" % mode)
        rows = [r for r in table[mode] if r["item"][0] not in ("Blank", "Comment")]
        L.append(";\n".join("  ([%s], %s)" % ("; ".join(coq_lit(l) for l in r["guard"]), coq_item(r["item"])) for r in rows))
        L.append("].")
        L.append("")
    return "\n".join(L)


def generate(path):
    return to_coq(translate(path))


# ---------------------------------------------------------------------------
# Python evaluation of the SAME table (used by the harness for the per-compilation tie)
# ---------------------------------------------------------------------------
def eval_guard(guard, fv, data=None):
    for l in guard:
        if l[0] == "flag":
            if bool(fv[l[1]]) != l[2]:
                return False
        else:
            if data is None or bool(data(l[1])) != l[2]:
                return False
    return True


def declared(rows, fv, hooks, fcs, ycs):
    """the API symbols the table says are declared / defined under flag vector fv (dict name -> bool)"""
    out = []
    for r in rows:
        i = r["item"]
        if i[0] in ("Blank", "Comment", "Other"):
            continue
        if not eval_guard(r["guard"], fv):
            continue
        if i[0] == "Proto":
            out.append(("fun", i[1], i[2]))
        elif i[0] == "Define":
            out.append(("def", i[1], i[2]))
        elif i[0] == "HookProto":
            out += [("hookproto", h, i[1]) for h in hooks]
        elif i[0] == "HookMember":
            out += [("hookmember", h) for h in hooks]
        elif i[0] == "Enumerator":
            out.append(("enum", i[1]))
        elif i[0] == "EnumeratorPerFinish":
            out += [("enum", "FINISH_" + c) for c in fcs]
        elif i[0] == "EnumeratorPerYield":
            out += [("enum", "YIELD_" + c) for c in ycs]
        elif i[0] == "Include":
            out.append(("include", i[1]))
    return out


if __name__ == "__main__":
    print(generate(sys.argv[1] if len(sys.argv) > 1 else "/repo/nmfu.py"))
