"""Fail-closed translator from a small subset of Python (functions of /repo/nmfu.py selected by
qualified name) to Gallina over coq/Base/PyLite.v.  Anything outside the subset raises
Unsupported, which the checks report as a broken tie (never silently skipped).

Conventions of the emitted text
  * Python int -> Z, str -> pystr (list N of code points), bool -> bool,
    bytes -> list Z, list of 1-char strings -> list pystr, Optional[int] -> option Z
  * every raising operation is bound in the [pyres] monad in CPython's evaluation order
  * `while` -> Fixpoint on fuel (extra first argument [fuel : nat], [Fuel] when exhausted);
    `for x in list` -> structural Fixpoint; the code after a loop lives in the loop's exit branch
  * a function with a while loop takes [fuel] as its first argument
"""
import ast, string, textwrap


class Unsupported(Exception):
    pass


def coq_str(s):
    """Python str constant -> Coq list N literal"""
    if not s:
        return "(@nil N)"
    return "[" + "; ".join(str(ord(c)) for c in s) + "]%N"


def coq_z(n):
    return "(%d)%%Z" % n


COQTYPE = {"str": "pystr", "int": "Z", "bool": "bool", "bytes": "list Z", "strlist": "list pystr",
           "optint": "option Z", "pairlist": "list (pystr * pystr)", "pair": "(pystr * pystr)",
           "cname": "pystr"}


class FnTranslator:
    def __init__(self, fn, name, param_types, ret_type, consts=None):
        self.fn = fn
        self.name = name
        self.param_types = param_types
        self.ret_type = ret_type
        self.aux = []          # emitted auxiliary Fixpoints
        self.nloop = 0
        self.ntmp = 0
        self.uses_fuel = any(isinstance(n, ast.While) for n in ast.walk(fn))
        self.consts = consts or {}
        self.diagnosed = set()

    # ------------------------------------------------------------------
    def tmp(self):
        self.ntmp += 1
        return "t%d_" % self.ntmp

    def fail(self, node, why="unsupported construct"):
        raise Unsupported("%s: %s at line %s: %s" % (self.name, why, getattr(node, "lineno", "?"),
                                                     ast.dump(node)[:200]))

    # ---- constant folding of pure int expressions ----------------------
    def const_int(self, e):
        if isinstance(e, ast.Constant) and type(e.value) is int:
            return e.value
        if isinstance(e, ast.UnaryOp) and isinstance(e.op, ast.USub):
            v = self.const_int(e.operand)
            return None if v is None else -v
        if isinstance(e, ast.BinOp):
            a, b = self.const_int(e.left), self.const_int(e.right)
            if a is None or b is None:
                return None
            if isinstance(e.op, ast.Add): return a + b
            if isinstance(e.op, ast.Sub): return a - b
            if isinstance(e.op, ast.Mult): return a * b
            if isinstance(e.op, ast.LShift): return a << b
        return None

    # ---- expressions, CPS: k(text, type) -> text -----------------------
    def expr(self, e, env, k):
        ci = self.const_int(e)
        if ci is not None:
            return k(coq_z(ci), "int")
        if isinstance(e, ast.Constant):
            v = e.value
            if type(v) is str:
                return k(coq_str(v), "str")
            if type(v) is bool:
                return k("true" if v else "false", "bool")
            if v is None:
                return k("(@None Z)", "optint")
            self.fail(e, "constant")
        if isinstance(e, ast.Name):
            if e.id in env:
                return k(e.id, env[e.id])
            if e.id in ("str", "bytes"):
                return k("py_" + e.id, "pytype")
            self.fail(e, "unknown name")
        if isinstance(e, ast.Attribute):
            if isinstance(e.value, ast.Name) and e.value.id == "string" and hasattr(string, e.attr):
                return k(coq_str(getattr(string, e.attr)), "str")
            self.fail(e, "attribute")
        if isinstance(e, ast.BoolOp):
            def chain(vals):
                if len(vals) == 1:
                    return self.expr(vals[0], env, lambda t, ty: k(self.as_bool(t, ty, e), "bool"))
                def kk(t, ty):
                    b = self.as_bool(t, ty, e)
                    if isinstance(e.op, ast.Or):
                        return "(if %s then %s else %s)" % (b, k("true", "bool"), chain(vals[1:]))
                    return "(if %s then %s else %s)" % (b, chain(vals[1:]), k("false", "bool"))
                return self.expr(vals[0], env, kk)
            return chain(e.values)
        if isinstance(e, ast.UnaryOp):
            if isinstance(e.op, ast.Not):
                return self.expr(e.operand, env, lambda t, ty: k("(negb %s)" % self.as_bool(t, ty, e), "bool"))
            if isinstance(e.op, ast.USub):
                return self.expr(e.operand, env, lambda t, ty: k("(- %s)%%Z" % t, "int") if ty == "int" else self.fail(e))
            self.fail(e)
        if isinstance(e, ast.IfExp):
            return self.expr(e.test, env, lambda t, ty: "(if %s then %s else %s)" % (
                self.as_bool(t, ty, e), self.expr(e.body, env, k), self.expr(e.orelse, env, k)))
        if isinstance(e, ast.Compare):
            return self.compare(e, env, k)
        if isinstance(e, ast.BinOp):
            return self.binop(e, env, k)
        if isinstance(e, ast.Subscript):
            return self.subscript(e, env, k)
        if isinstance(e, ast.Call):
            return self.call(e, env, k)
        if isinstance(e, ast.List):
            # list of constant strings
            if all(isinstance(x, ast.Constant) and type(x.value) is str for x in e.elts):
                return k("[" + "; ".join(coq_str(x.value) for x in e.elts) + "]", "strlist")
            # list of str expressions
            def build(elts, acc):
                if not elts:
                    return k("[" + "; ".join(acc) + "]", "strlist")
                return self.expr(elts[0], env, lambda t, ty: build(elts[1:], acc + [t]) if ty == "str" else self.fail(e, "list element type"))
            return build(list(e.elts), [])
        if isinstance(e, ast.ListComp):
            return self.listcomp(e, env, k)
        self.fail(e)

    def as_bool(self, t, ty, node):
        if ty == "bool":
            return t
        if ty == "int":
            return "(negb (%s =? 0)%%Z)" % t
        if ty == "str":
            return "(negb (str_eqb %s []))" % t
        self.fail(node, "truthiness of " + ty)

    def pure(self, e, env):
        """translate an expression that must not raise; returns (text, type)"""
        box = {}
        sentinel = "@@K@@"
        def k(t, ty):
            box["t"], box["ty"] = t, ty
            return sentinel
        out = self.expr(e, env, k)
        if out != sentinel:
            self.fail(e, "expression not pure where purity is required")
        return box["t"], box["ty"]

    def compare(self, e, env, k):
        # chained comparisons a op b op c
        operands = [e.left] + list(e.comparators)
        def go(i, left_t, left_ty, acc_k):
            pass
        def step(i, lt, lty):
            op = e.ops[i]
            def with_right(rt, rty):
                c = self.cmp1(op, lt, lty, rt, rty, e)
                wrap = lambda body: body
                if c[0] == "bindbool":
                    _, _, olt, oop, ort = c
                    c = ("ok", "(v_ %s %s)%%Z" % (oop, ort))
                    wrap = lambda body: "(match %s with None => Raise TypeError | Some v_ => %s end)" % (olt, body)
                if i == len(e.ops) - 1:
                    return wrap(k(c[1], "bool"))
                return wrap("(if %s then %s else %s)" % (c[1], step(i + 1, rt, rty), k("false", "bool")))
            return self.expr(operands[i + 1], env, with_right)
        return self.expr(operands[0], env, lambda lt, lty: step(0, lt, lty))

    def cmp1(self, op, lt, lty, rt, rty, node):
        if isinstance(op, (ast.Is, ast.IsNot)):
            neg = isinstance(op, ast.IsNot)
            if lty == "optint" and rt == "(@None Z)":
                t = "(match %s with None => true | Some _ => false end)" % lt
                return ("ok", "(negb %s)" % t if neg else t)
            if lty == "pytype" and rty == "pytype":
                t = "true" if lt == rt else "false"
                return ("ok", "(negb %s)" % t if neg else t)
            self.fail(node, "is")
        if isinstance(op, (ast.In, ast.NotIn)):
            if lty == "str" and rty == "str":
                t = "(py_in_chars %s %s)" % (lt, rt)
            elif lty == "str" and rty == "strlist":
                t = "(py_in_strlist %s %s)" % (lt, rt)
            else:
                self.fail(node, "in")
            return ("ok", "(negb %s)" % t if isinstance(op, ast.NotIn) else t)
        if lty == "str" and rty == "str":
            if isinstance(op, ast.Eq): return ("ok", "(str_eqb %s %s)" % (lt, rt))
            if isinstance(op, ast.NotEq): return ("ok", "(negb (str_eqb %s %s))" % (lt, rt))
            self.fail(node, "string ordering")
        zops = {ast.Eq: "=?", ast.Lt: "<?", ast.LtE: "<=?", ast.Gt: ">?", ast.GtE: ">=?"}
        if lty == "int" and rty == "int":
            if isinstance(op, ast.NotEq): return ("ok", "(negb (%s =? %s)%%Z)" % (lt, rt))
            return ("ok", "(%s %s %s)%%Z" % (lt, zops[type(op)], rt))
        if lty == "optint" and rty == "int":
            # None < 3 raises TypeError in Python 3
            if isinstance(op, (ast.Eq, ast.NotEq)):
                t = "(match %s with Some v_ => (v_ =? %s)%%Z | None => false end)" % (lt, rt)
                return ("ok", "(negb %s)" % t if isinstance(op, ast.NotEq) else t)
            return ("bindbool", None, lt, zops[type(op)], rt)
        self.fail(node, "comparison of %s and %s" % (lty, rty))

    def binop(self, e, env, k):
        def kl(lt, lty):
            def kr(rt, rty):
                op = e.op
                if lty == "str" and rty == "str" and isinstance(op, ast.Add):
                    return k("(%s ++ %s)" % (lt, rt), "str")
                if lty == "int" and rty == "int":
                    m = {ast.Add: "+", ast.Sub: "-", ast.Mult: "*", ast.Mod: "mod", ast.FloorDiv: "/"}
                    if type(op) in m:
                        if isinstance(op, (ast.Mod, ast.FloorDiv)):
                            return "(if (%s =? 0)%%Z then Raise OtherError else %s)" % (rt, k("(%s %s %s)%%Z" % (lt, m[type(op)], rt), "int"))
                        return k("(%s %s %s)%%Z" % (lt, m[type(op)], rt), "int")
                    if isinstance(op, ast.LShift):
                        return k("(Z.shiftl %s %s)" % (lt, rt), "int")
                if lty == "optint" and rty == "int" and isinstance(op, ast.Add):
                    return "(match %s with None => Raise TypeError | Some v_ => %s end)" % (lt, k("(Some (v_ + %s)%%Z)" % rt, "optint"))
                self.fail(e, "binop %s %s" % (lty, rty))
            return self.expr(e.right, env, kr)
        return self.expr(e.left, env, kl)

    def opt_z(self, e, env):
        """slice bound -> Coq option Z text (must be pure)"""
        if e is None:
            return "None"
        t, ty = self.pure(e, env)
        if ty != "int":
            self.fail(e, "slice bound")
        return "(Some %s)" % t

    def subscript(self, e, env, k):
        sl = e.slice
        # dict literal lookup
        if isinstance(e.value, ast.Dict):
            d, vty = self.dict_lit(e.value, env)
            def kk(t, ty):
                if ty != "str":
                    self.fail(e, "dict key type")
                v = self.tmp()
                return "(%s <- dict_get %s %s ;; %s)" % (v, d, t, k(v, vty))
            return self.expr(sl, env, kk)
        def kv(vt, vty):
            if isinstance(sl, ast.Slice):
                if vty not in ("str", "strlist", "bytes"):
                    self.fail(e, "slice of " + vty)
                if sl.step is not None:
                    if self.const_int(sl.step) != 2 or sl.upper is not None:
                        self.fail(e, "slice step")
                    return k("(py_slice_step2 %s %s)" % (vt, self.opt_z(sl.lower, env)), vty)
                return k("(py_slice %s %s %s)" % (vt, self.opt_z(sl.lower, env), self.opt_z(sl.upper, env)), vty)
            if vty == "pair":
                ci = self.const_int(sl)
                if ci == 0: return k("(fst %s)" % vt, "str")
                if ci == 1: return k("(snd %s)" % vt, "str")
                self.fail(e, "pair index")
            def ki(it, ity):
                if ity != "int":
                    self.fail(e, "index type")
                v = self.tmp()
                if vty == "str":
                    return "(%s <- py_index %s %s ;; %s)" % (v, vt, it, k(v, "str"))
                if vty == "strlist":
                    return "(%s <- py_index_gen %s %s ;; %s)" % (v, vt, it, k(v, "str"))
                self.fail(e, "index of " + vty)
            return self.expr(sl, env, ki)
        return self.expr(e.value, env, kv)

    def dict_lit(self, d, env):
        items = []
        vty = None
        for kk, vv in zip(d.keys, d.values):
            if isinstance(kk, ast.Constant) and type(kk.value) is str:
                kt = coq_str(kk.value); kty = "str"
            elif isinstance(kk, ast.Constant) and type(kk.value) is int:
                kt = coq_z(kk.value); kty = "int"
            else:
                self.fail(d, "dict key")
            t, ty = self.pure(vv, env)
            if ty == "int" and vty == "optint":
                pass
            vty = vty or ty
            if ty != vty:
                self.fail(d, "heterogeneous dict")
            items.append((kt, t, kty))
        ktys = set(i[2] for i in items)
        if len(ktys) != 1:
            self.fail(d, "dict key types")
        self.last_dict_kty = ktys.pop()
        return "[" + "; ".join("(%s, %s)" % (a, b) for a, b, _ in items) + "]", vty

    def call(self, e, env, k):
        f = e.func
        if isinstance(f, ast.Name):
            if f.id == "len" and len(e.args) == 1:
                return self.expr(e.args[0], env, lambda t, ty: k("(py_len %s)" % t, "int"))
            if f.id == "chr" and len(e.args) == 1:
                def kk(t, ty):
                    if ty != "int": self.fail(e, "chr arg")
                    v = self.tmp()
                    return "(%s <- py_chr %s ;; %s)" % (v, t, k(v, "str"))
                return self.expr(e.args[0], env, kk)
            if f.id == "ord" and len(e.args) == 1:
                def kk(t, ty):
                    v = self.tmp()
                    return "(%s <- py_ord %s ;; %s)" % (v, t, k(v, "int"))
                return self.expr(e.args[0], env, kk)
            if f.id == "int":
                base = 10
                if len(e.args) == 2:
                    base = self.const_int(e.args[1])
                for kw in e.keywords:
                    if kw.arg == "base":
                        base = self.const_int(kw.value)
                    else:
                        self.fail(e, "int keyword")
                if base is None or len(e.args) not in (1, 2):
                    self.fail(e, "int()")
                def kk(t, ty):
                    if ty != "str": self.fail(e, "int arg")
                    v = self.tmp()
                    return "(%s <- py_int_lit %s %s ;; %s)" % (v, t, coq_z(base), k(v, "int"))
                return self.expr(e.args[0], env, kk)
            if f.id == "type" and len(e.args) == 1:
                t, ty = self.pure(e.args[0], env)
                return k({"str": "py_str", "bytes": "py_bytes"}.get(ty, "py_other"), "pytype")
            if f.id == "isinstance" and len(e.args) == 2 and isinstance(e.args[1], ast.Name):
                t, ty = self.pure(e.args[0], env)
                return k("true" if {"str": "str", "bytes": "bytes", "int": "int"}.get(ty) == e.args[1].id else "false", "bool")
            if f.id == "zip" and len(e.args) == 2:
                a, aty = self.pure(e.args[0], env)
                b, bty = self.pure(e.args[1], env)
                if aty == bty == "strlist":
                    return k("(zip %s %s)" % (a, b), "pairlist")
            self.fail(e, "call")
        if isinstance(f, ast.Attribute):
            # "...".format(i)
            if f.attr == "format" and isinstance(f.value, ast.Constant) and len(e.args) == 1:
                fmt = f.value.value
                if fmt.endswith("{:02x}") and "{" not in fmt[:-6]:
                    return self.expr(e.args[0], env, lambda t, ty: k("(%s ++ fmt_02x %s)" % (coq_str(fmt[:-6]), t), "str"))
                if fmt.endswith("{:03o}") and "{" not in fmt[:-6]:
                    return self.expr(e.args[0], env, lambda t, ty: k("(%s ++ fmt_03o %s)" % (coq_str(fmt[:-6]), t), "str"))
                self.fail(e, "format string")
            if f.attr == "encode" and len(e.args) == 1 and isinstance(e.args[0], ast.Constant):
                enc = e.args[0].value
                def kk(t, ty):
                    if ty != "str": self.fail(e, "encode receiver")
                    if enc == "utf-8":
                        return k("(map Z.of_N (utf8_encode %s))" % t, "bytes")
                    if enc == "latin-1":
                        v = self.tmp()
                        return "(%s <- latin1_encode %s ;; %s)" % (v, t, k(v, "bytes"))
                    self.fail(e, "encoding")
                return self.expr(f.value, env, kk)
            if f.attr == "get" and isinstance(f.value, ast.Dict) and len(e.args) == 2:
                d, vty = self.dict_lit(f.value, env)
                kty = self.last_dict_kty
                dflt = e.args[1]
                def kk(t, ty):
                    if isinstance(dflt, ast.Constant) and dflt.value is None and vty == "int" and kty == "int":
                        if ty == "optint":   # a None key is simply absent from an int-keyed dict
                            return k("(match %s with Some w_ => zdict_get %s w_ | None => None end)" % (t, d), "optint")
                        return k("(zdict_get %s %s)" % (d, t), "optint")
                    if isinstance(dflt, ast.Constant) and dflt.value is None and vty == "int" and kty == "str":
                        return k("(match dict_get %s %s with Ok v_ => Some v_ | _ => None end)" % (d, t), "optint")
                    def kd(dt, dty):
                        if dty != vty or kty != "str":
                            self.fail(e, "dict.get default type")
                        return k("(dict_get_default %s %s %s)" % (d, t, dt), vty)
                    return self.expr(dflt, env, kd)
                return self.expr(e.args[0], env, kk)
            if f.attr == "index" and len(e.args) == 1:
                # string.ascii_letters.index(c)
                rt, rty = self.pure(f.value, env)
                def kk(t, ty):
                    v = self.tmp()
                    return "(%s <- py_str_index %s %s ;; %s)" % (v, rt, t, k(v, "int"))
                return self.expr(e.args[0], env, kk)
        self.fail(e, "call")

    def listcomp(self, e, env, k):
        if len(e.generators) != 1:
            self.fail(e)
        g = e.generators[0]
        if not isinstance(g.target, ast.Name) or not isinstance(e.elt, ast.Name) or e.elt.id != g.target.id:
            self.fail(e, "list comprehension shape")
        def kk(t, ty):
            if ty != "str":
                self.fail(e, "comprehension source")
            env2 = dict(env); env2[g.target.id] = "str"
            conds = []
            for c in g.ifs:
                ct, cty = self.pure(c, env2)
                conds.append(self.as_bool(ct, cty, c))
            cond = " && ".join(conds) if conds else "true"
            return k("(filter (fun %s => %s) (map (fun c_ => [c_]) %s))" % (g.target.id, cond, t), "strlist")
        return self.expr(g.iter, env, kk)

    # ---- statements ----------------------------------------------------
    def stmts(self, body, env, kend):
        """kend(env) -> text of what happens when control falls off the end of `body`"""
        if not body:
            return kend(env)
        s, rest = body[0], body[1:]
        if isinstance(s, ast.Expr) and isinstance(s.value, ast.Constant) and isinstance(s.value.value, str):
            return self.stmts(rest, env, kend)          # docstring
        if isinstance(s, ast.Return):
            if s.value is None:
                self.fail(s, "bare return")
            return self.expr(s.value, env, lambda t, ty: self.ret(t, ty, s))
        if isinstance(s, ast.Raise):
            exc = s.exc
            name = exc.func.id if isinstance(exc, ast.Call) else getattr(exc, "id", None)
            if name in ("KeyError", "IndexError", "ValueError", "TypeError", "NotImplementedError"):
                return "(Raise %s)" % name
            if name in self.diagnosed:
                return "(Raise Diagnosed)"
            return "(Raise OtherError)"
        if isinstance(s, ast.Assign):
            if len(s.targets) != 1 or not isinstance(s.targets[0], ast.Name):
                self.fail(s, "assignment target")
            x = s.targets[0].id
            def kk(t, ty):
                env2 = dict(env); env2[x] = ty
                return "(let %s := %s in\n %s)" % (x, t, self.stmts(rest, env2, kend))
            return self.expr(s.value, env, kk)
        if isinstance(s, ast.AugAssign):
            if not isinstance(s.target, ast.Name):
                self.fail(s)
            x = s.target.id
            fake = ast.BinOp(left=ast.Name(id=x, ctx=ast.Load()), op=s.op, right=s.value)
            ast.copy_location(fake, s)
            def kk(t, ty):
                env2 = dict(env); env2[x] = ty
                return "(let %s := %s in\n %s)" % (x, t, self.stmts(rest, env2, kend))
            return self.expr(fake, env, kk)
        if isinstance(s, ast.If):
            cont = lambda env2: self.stmts(rest, env2, kend)
            def kif(t, ty):
                b = self.as_bool(t, ty, s)
                if b == "true":       # statically decided by the parameter types (type(x) is str)
                    return self.stmts(s.body, env, cont)
                if b == "false":
                    return self.stmts(s.orelse, env, cont)
                return "(if %s\n then %s\n else %s)" % (b, self.stmts(s.body, env, cont), self.stmts(s.orelse, env, cont))
            return self.expr(s.test, env, kif)
        if isinstance(s, ast.While):
            if s.orelse:
                self.fail(s, "while-else")
            self.nloop += 1
            lname = "%s_loop%d" % (self.name, self.nloop)
            vars_ = sorted(env.keys())
            sig = " ".join("(%s : %s)" % (v, COQTYPE[env[v]]) for v in vars_)
            call = lambda env2: "(%s fuel %s)" % (lname, " ".join(vars_))
            # types must be stable across the loop
            def back(env2):
                for v in vars_:
                    if env2.get(v) != env[v]:
                        self.fail(s, "loop changes type of " + v)
                return call(env2)
            body_t = self.expr(s.test, env, lambda t, ty: "(if %s\n then %s\n else %s)" % (
                self.as_bool(t, ty, s), self.stmts(s.body, env, back), self.stmts(rest, env, kend)))
            self.aux.append("Fixpoint %s (fuel : nat) %s {struct fuel} : pyres (%s) :=\n match fuel with O => Fuel | S fuel =>\n %s\n end." % (
                lname, sig, COQTYPE[self.ret_type], body_t))
            return call(env)
        if isinstance(s, ast.For):
            if s.orelse or not isinstance(s.target, ast.Name):
                self.fail(s, "for shape")
            self.nloop += 1
            lname = "%s_loop%d" % (self.name, self.nloop)
            it, ity = self.pure(s.iter, env)
            elty = {"bytes": "int", "strlist": "str", "pairlist": "pair", "str": None}.get(ity)
            if ity == "str":
                it, ity, elty = "(map (fun c_ => [c_]) %s)" % it, "strlist", "str"
            if elty is None:
                self.fail(s, "for over " + str(ity))
            x = s.target.id
            vars_ = sorted(v for v in env.keys() if v != x)
            sig = " ".join("(%s : %s)" % (v, COQTYPE[env[v]]) for v in vars_)
            fuel_arg = "fuel " if self.uses_fuel else ""
            fuel_sig = "(fuel : nat) " if self.uses_fuel else ""
            env_in = dict(env); env_in[x] = elty
            def back(env2):
                for v in vars_:
                    if env2.get(v) != env[v]:
                        self.fail(s, "loop changes type of " + v)
                return "(%s %sl_ %s)" % (lname, fuel_arg, " ".join(vars_))
            body_t = self.stmts(s.body, env_in, back)
            exit_t = self.stmts(rest, env, kend)
            self.aux.append("Fixpoint %s %s(l_ : %s) %s {struct l_} : pyres (%s) :=\n match l_ with\n | [] => %s\n | %s :: l_ =>\n %s\n end." % (
                lname, fuel_sig, COQTYPE[ity], sig, COQTYPE[self.ret_type], exit_t, x, body_t))
            return "(%s %s%s %s)" % (lname, fuel_arg, it, " ".join(vars_))
        self.fail(s, "statement")

    def ret(self, t, ty, node):
        if ty != self.ret_type:
            if self.ret_type == "int" and ty == "int":
                pass
            else:
                self.fail(node, "return type %s, expected %s" % (ty, self.ret_type))
        return "(Ok %s)" % t

    def translate(self):
        env = dict(self.param_types)
        args = [a.arg for a in self.fn.args.args if a.arg != "self"]
        for a in args:
            if a not in env:
                raise Unsupported("%s: no type given for parameter %s" % (self.name, a))
        body = self.stmts(self.fn.body, env, lambda env2: "(Raise OtherError) (* fell off the end: returns None *)")
        sig = " ".join("(%s : %s)" % (a, COQTYPE[env[a]]) for a in args)
        fuel_sig = "(fuel : nat) " if self.uses_fuel else ""
        out = "\n\n".join(self.aux)
        out += "\n\nDefinition %s %s%s : pyres (%s) :=\n %s.\n" % (self.name, fuel_sig, sig, COQTYPE[self.ret_type], body)
        return out


def find_function(tree, qualname):
    parts = qualname.split(".")
    node = tree
    for p in parts:
        found = None
        for ch in node.body:
            if isinstance(ch, (ast.ClassDef, ast.FunctionDef)) and ch.name == p:
                found = ch
                break
        if found is None:
            raise Unsupported("function %s not found in source" % qualname)
        node = found
    if not isinstance(node, ast.FunctionDef):
        raise Unsupported("%s is not a function" % qualname)
    return node


HEADER = """(* GENERATED by translator/pylite2coq.py from %s -- do not edit; regenerated on every run *)
From Coq Require Import ZArith NArith List Bool.
Import ListNotations.
From NV Require Import Base.PyLite.
Definition py_str := 1%%nat. Definition py_bytes := 2%%nat. Definition py_other := 3%%nat.
Fixpoint py_str_index_go (s : pystr) (c : N) (i : Z) : pyres Z :=
  match s with [] => Raise ValueError | x :: r => if N.eqb x c then Ok i else py_str_index_go r c (i + 1)%%Z end.
Definition py_str_index (s c : pystr) : pyres Z := match c with [x] => py_str_index_go s x 0%%Z | _ => Raise ValueError end.
"""


def translate_functions(source_path, specs):
    """specs: list of (qualname, coq_name, param_types, ret_type).  Returns Coq text."""
    src = open(source_path).read()
    tree = ast.parse(src)
    # classes deriving (transitively) from NMFUError are diagnosed errors
    diagnosed = {"NMFUError"}
    changed = True
    while changed:
        changed = False
        for n in tree.body:
            if isinstance(n, ast.ClassDef) and n.name not in diagnosed and any(isinstance(b, ast.Name) and b.id in diagnosed for b in n.bases):
                diagnosed.add(n.name); changed = True
    out = [HEADER % source_path]
    for qual, coqname, ptypes, rty in specs:
        fn = find_function(tree, qual)
        tr = FnTranslator(fn, coqname, ptypes, rty)
        tr.diagnosed = diagnosed
        out.append("(* ---- %s ---- *)" % qual)
        out.append(tr.translate())
    return "\n".join(out)
